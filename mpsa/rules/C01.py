"""C01 - reformulation hands the solver an equivalent model: necessary structural conditions.

Semantic equivalence of every reformulation over all models is NOT decided.  Decided, each a necessary
condition whose violation changes the feasible set of some model:

X1 context propagation is monotonicity-sound: every PropagateResult* overload passes to an argument either the
   mixed context, or the context of the result (resp. its negation) on paths whose conditions entail that
   the expression is non-decreasing (resp. non-increasing) in that argument (finite case enumeration of the
   path conditions against a monotonicity oracle per constraint type);
A1 the context algebra: Add is the join of the lattice NONE < POS,NEG < MIX, negation swaps POS/NEG;
P1 no constraint is dropped by a failed conversion: MarkAsBridged only after RunConversion returned; the
   default Convert of a type without converter raises; the tolerant loop swallows only the two failure types;
P2 every conversion replaces what it removes: every normal-exit path of an installed Convert / ConvertCtxPos /
   ConvertCtxNeg adds to the model, except on paths whose conditions state that nothing is needed;
D1 direction dispatch: BasicFuncConstrCvt::Convert runs the negative (positive) conversion whenever the context
   has a negative (positive) part and the result bound does not already imply it; an unset context becomes
   mixed before conversion;
K1 comparison reformulation table: for the 8 conditional comparisons x 2 directions the output sense, the
   epsilon (strict vs. non-strict, sign) and the indicator value agree with the reference table; equality:
   positive = indicator on the equality, negative = disjunction of the two strict sides;
M1 big-M: the bound used is the upper (lower) bound of the same body for <= (>=), infinite bounds are replaced
   by the cvt:bigM value or refused, and the coefficient of the binary / the new right-hand side are
   (ub-rhs, ub) for value 1 and (rhs-ub, rhs) for value 0 (affine normal forms);
R1 converters that put the result variable of a mapped (possibly shared) functional constraint into a
   constraint they add give that expression the context the new constraint needs.
"""
import re
import hashlib
from ..cfg import norm_facts as _norm_facts, Facts, kids, strip, walk, cv, render, call_args, call_object, switch_sections
from ..cfg import short_loc as _short_loc
from ..facts import export, AnalysisBroken

LEVEL = "other"
TECHNIQUE = ("static analysis: path enumeration of the context propagators against a monotonicity oracle (finite "
             "case enumeration), switch tables of the context algebra, order/path rules on the conversion loop, "
             "must-add rule over all installed converters, compile-time constant table of the comparison "
             "reformulations, affine normal forms of the big-M terms, who-propagates rule at sub-expression sites")
LEVEL_TEXT = ("Decided: the structural clauses X1, A1, P1, P2, D1, K1, M1, R1 (see the module docstring).  NOT decided "
              "and not claimed: semantic equivalence of each reformulation over all models (linearisation "
              "coefficients of and/or/min/max/abs/if-then-else/count, unary encodings, SOS2/PL encodings, bound "
              "preprocessing, term canonicalisation), the objective value clause."
              "  Also decided (added after the seeded rounds): the point form of a piecewise-linear term given by slopes lies on the term's function (evaluated on sample breakpoint lists).")
LEVEL_NOTE = "Trusted: clang 14 front end/CFG, tool/mpx.cc, the rule module with its reference tables."
DESIGN_REF = "DESIGN.md section 4, C01"
EXPLANATION = "Unit: the visitor flat-converter unit (all converters instantiated for the mock driver).  See the module docstring."
ASSUMPTIONS = ["the reference tables of the module (monotonicity per constraint type, comparison table) are right",
               "converters are instantiated identically for every driver (they are templates over the model converter)"]
TRUSTED = ["clang 14 front end + CFG builder", "tool/mpx.cc", "mpsa/rules/C01.py"]

U = "solvers/visitor/visitor-modelapi-connect.cc"
_REPO = ["/repo"]


def short_loc(l):
    return _short_loc((l or "").replace(_REPO[0].rstrip("/") + "/", "/repo/"))


def nt(t):
    t = t.replace(" ", "").replace("<default>", "").replace("std::", "").replace("this->", "")
    t = re.sub(r"\((?:const)?(?:mp::)?[A-Za-z_0-9:<>,]*\*\)", "", t)
    t = t.replace("MPD(", "(")
    return re.sub(r"(?<![0-9.A-Za-z_])([0-9]+)\.0(?![0-9])", r"\1", t)


# ---------------------------------------------------------------------------------------------------
# Path enumeration of a (loop-body-once) structured function for values of type mp::Context
# ---------------------------------------------------------------------------------------------------
SINKS = ("PropagateResultOfInitExpr", "PropagateResult2Vars", "PropagateResult2LinTerms", "PropagateResult2QuadTerms",
         "PropagateResult2QuadAndLinTerms", "PropagateResult2Args", "PropagateIfThenResultIntoCondition", "PropagateResult")


class CtxPaths:
    """Enumerates the paths of a function; on each path records the sink calls with the symbolic context passed:
    'C' (the context parameter), '-C', 'MIX', 'POS', 'NEG', 'NONE' or ('?', text)."""

    def __init__(self, f, ctx_param):
        self.f = f
        self.ctx_decl = ctx_param
        self.out = []          # (conds, [(sink, target, val, node)])
        self.locals = {v.get("declId"): v for v in f.walk() if v["k"] == "VarDecl"}

    # -- context expressions ------------------------------------------------------------------
    def ctx_eval(self, e, env):
        """-> list of (extra_conds, value)"""
        e = strip(e)
        k = e["k"]
        if k in ("CXXConstructExpr", "CXXTemporaryObjectExpr", "CXXFunctionalCastExpr", "MaterializeTemporaryExpr", "ExprWithCleanups", "CXXBindTemporaryExpr"):
            a = [x for x in kids(e) if x is not None and x["k"] != "CXXDefaultArgExpr"]
            if not a:
                return [([], "NONE")]
            return self.ctx_eval(a[0], env)
        if k == "DeclRefExpr":
            if e.get("declId") == self.ctx_decl:
                return [([], "C")]
            if e.get("declId") in env:
                return [([], env[e["declId"]])]
            nm = e.get("name", "")
            if nm in ("CTX_MIX", "CTX_POS", "CTX_NEG", "CTX_NONE"):
                return [([], nm[4:])]
            return [([], ("?", render(e)))]
        if k == "CXXOperatorCallExpr" and e.get("op") in ("+", "-") and len(call_args(e)) == 1:
            res = []
            for c, v in self.ctx_eval(call_args(e)[0], env):
                res.append((c, self.unary(e["op"], v)))
            return res
        if k in ("CXXMemberCallExpr", "CallExpr") and "mp::Context" in (e.get("ct") or "") and getattr(self.f, "_owner", None) is not None \
                and getattr(self, "depth", 0) < 2:
            # a helper that computes a context: its paths are enumerated and spliced in (parameters -> arguments)
            g = self.f._owner._by_id.get(e.get("calleeId"))
            cps = [p for p in (g.params if g is not None else []) if "mp::Context" in (p.get("ct") or p.get("t") or "")]
            if g is not None and g.body is not None and g is not self.f and len(cps) == 1:
                args = call_args(e)
                sub = CtxPaths(g, cps[0]["declId"])
                sub.depth = getattr(self, "depth", 0) + 1
                sub.returns = []
                sub.run()
                ctx_arg = next((a for p, a in zip(g.params, args) if p["declId"] == cps[0]["declId"]), None)
                arg_vals = self.ctx_eval(ctx_arg, env) if ctx_arg is not None else [([], ("?", "missing context argument"))]
                ren = [(p["name"], nt(render(a))) for p, a in zip(g.params, args) if p["declId"] != cps[0]["declId"] and p.get("name")]

                def back(t):
                    for pn, at in ren:
                        t = re.sub(r"(?<![A-Za-z0-9_.>])%s(?![A-Za-z0-9_])" % re.escape(pn), at, t)
                    return t
                res = []
                for ac, av in arg_vals:
                    for rc, rv in sub.returns:
                        if rv == "C":
                            v = av
                        elif rv == "-C":
                            v = self.unary("-", av)
                        else:
                            v = rv
                        res.append((ac + [(back(t), pol) for t, pol in rc], v))
                if res:
                    return res
        if k == "ConditionalOperator":
            c, a, b = kids(e)
            res = []
            val = cv(c)
            for pol, br in ((True, a), (False, b)):
                if val is not None and bool(val) != pol:
                    continue
                for cc, v in self.ctx_eval(br, env):
                    res.append(((self.cond_atoms(c, pol, env) if val is None else []) + cc, v))
            return res
        return [([], ("?", render(e)))]

    @staticmethod
    def unary(op, v):
        if isinstance(v, tuple):
            return ("?", op + v[1])
        if op == "+":
            return {"NONE": "POS"}.get(v, v)
        return {"C": "-C", "-C": "C", "POS": "NEG", "NEG": "POS", "NONE": "NEG", "MIX": "MIX"}[v]

    # -- conditions ---------------------------------------------------------------------------
    def inline(self, e, env, depth=0):
        """condition text with bool / numeric locals replaced by their initialisers"""
        e = strip(e)
        if e["k"] == "DeclRefExpr" and e.get("declId") in self.locals and depth < 4:
            v = self.locals[e["declId"]]
            if kids(v) and (v.get("ct") or "").replace("const ", "") in ("bool", "_Bool"):
                return "(" + self.inline(kids(v)[0], env, depth + 1) + ")"
        if e["k"] == "BinaryOperator":
            return self.inline(kids(e)[0], env, depth) + e["op"] + self.inline(kids(e)[1], env, depth)
        if e["k"] == "UnaryOperator" and e.get("op") == "!":
            return "!" + self.inline(kids(e)[0], env, depth)
        return nt(render(e))

    def cond_atoms(self, c, pol, env):
        c = strip(c)
        if c["k"] == "BinaryOperator" and c.get("op") == "&&" and pol:
            return self.cond_atoms(kids(c)[0], True, env) + self.cond_atoms(kids(c)[1], True, env)
        if c["k"] == "BinaryOperator" and c.get("op") == "||" and not pol:
            return self.cond_atoms(kids(c)[0], False, env) + self.cond_atoms(kids(c)[1], False, env)
        if c["k"] == "UnaryOperator" and c.get("op") == "!":
            return self.cond_atoms(kids(c)[0], not pol, env)
        if c["k"] == "DeclRefExpr" and c.get("declId") in self.locals and kids(self.locals[c["declId"]]):
            v = self.locals[c["declId"]]
            if (v.get("ct") or "").replace("const ", "") in ("bool", "_Bool"):
                return self.cond_atoms(kids(v)[0], pol, env)
        return [(self.inline(c, env), pol)]

    # -- statements ---------------------------------------------------------------------------
    def run(self):
        self.stmt(self.f.body, {}, [], [], lambda env, conds, sinks: self.out.append((conds, sinks)))
        return self.out

    def stmt(self, s, env, conds, sinks, k):
        """continuation-passing walk; k(env, conds, sinks) is called at the end of every path through s"""
        if s is None:
            return k(env, conds, sinks)
        kind = s["k"]
        if kind == "CompoundStmt":
            items = [x for x in s.get("c", []) if x is not None]

            def seq(i, env, conds, sinks):
                if i == len(items):
                    return k(env, conds, sinks)
                return self.stmt(items[i], env, conds, sinks, lambda e2, c2, s2: seq(i + 1, e2, c2, s2))
            return seq(0, env, conds, sinks)
        if kind == "IfStmt":
            ch = s.get("c", [])
            real = [x for x in ch if x is not None]
            cnd, then = real[0], real[1]
            els = real[2] if len(real) > 2 else None
            val = cv(cnd)
            if val is None or val:
                self.stmt(then, dict(env), conds + (self.cond_atoms(cnd, True, env) if val is None else []), list(sinks), k)
            if val is None or not val:
                self.stmt(els, dict(env), conds + (self.cond_atoms(cnd, False, env) if val is None else []), list(sinks), k)
            return
        if kind in ("ForStmt", "CXXForRangeStmt", "WhileStmt"):
            body = [x for x in s.get("c", []) if x is not None][-1]
            # the loop body is analysed once (iterations are independent: they only declare locals)
            return self.stmt(body, dict(env), conds, sinks, k)
        if kind == "DeclStmt":
            branches = [(env, conds)]
            for v in kids(s):
                if v["k"] == "VarDecl" and "mp::Context" in (v.get("ct") or ""):
                    nb = []
                    for e0, c0 in branches:
                        vals = self.ctx_eval(kids(v)[0], e0) if kids(v) else [([], "NONE")]
                        for cc, val in vals:
                            e1 = dict(e0)
                            e1[v["declId"]] = val
                            nb.append((e1, c0 + cc))
                    branches = nb
            for e1, c1 in branches:
                k(e1, c1, list(sinks))
            return
        if kind == "ReturnStmt":
            if getattr(self, "returns", None) is not None and kids(s):
                for cc, v in self.ctx_eval(kids(s)[0], env):
                    self.returns.append((conds + cc, v))
                return
            return self.expr(kids(s)[0] if kids(s) else None, env, conds, sinks, lambda e2, c2, s2: self.out.append((c2, s2)))
        return self.expr(s, env, conds, sinks, k)

    def expr(self, e, env, conds, sinks, k):
        if e is None:
            return k(env, conds, sinks)
        e0 = strip(e)
        while e0["k"] in ("ExprWithCleanups", "ParenExpr"):
            e0 = strip(kids(e0)[0])
        # assignment to a Context local
        if e0["k"] == "CXXOperatorCallExpr" and e0.get("op") == "=" and "mp::Context" in (e0.get("ct") or ""):
            lhs, rhs = call_args(e0)
            lhs = strip(lhs)
            for cc, val in self.ctx_eval(rhs, env):
                e1 = dict(env)
                e1[lhs.get("declId")] = val
                k(e1, conds + cc, list(sinks))
            return
        if e0["k"] == "CXXMemberCallExpr" and e0.get("callee") == "mp::Context::Add":
            obj = strip(call_object(e0))
            for cc, val in self.ctx_eval(call_args(e0)[0], env):
                e1 = dict(env)
                cur = env.get(obj.get("declId"), "NONE")
                e1[obj.get("declId")] = self.join(cur, val)
                k(e1, conds + cc, list(sinks))
            return
        if e0["k"] in ("CXXMemberCallExpr", "CallExpr") and (e0.get("callee") or "").split("::")[-1] in SINKS:
            nm = e0["callee"].split("::")[-1]
            a = call_args(e0)
            ctxarg = [x for x in a if "mp::Context" in (strip(x).get("ct") or x.get("ct") or "")]
            if not ctxarg:
                raise AnalysisBroken("C01.X1: sink %s without context argument at %s" % (nm, short_loc(e0.get("l"))))
            for cc, val in self.ctx_eval(ctxarg[-1], env):
                k(env, conds + cc, sinks + [(nm, nt(render(a[0])), val, e0)])
            return
        return k(env, conds, sinks)

    @staticmethod
    def join(a, b):
        if a == "NONE":
            return b
        if b == "NONE" or a == b:
            return a
        if "MIX" in (a, b):
            return "MIX"
        if {a, b} in ({"POS", "NEG"}, {"C", "-C"}):
            return "MIX"
        return ("?", "%s+%s" % (a, b))


# ---------------------------------------------------------------------------------------------------
# Monotonicity oracles: given the atoms true/false on a path, is the expression non-decreasing ('inc'),
# non-increasing ('dec') in the argument the sink feeds, or unknown ('unk')?
# ---------------------------------------------------------------------------------------------------
def atom_sign(conds, pattern):
    """truth value of the first atom matching the regex (None if absent)"""
    for t, pol in conds:
        if re.fullmatch(pattern, t):
            return pol
    return None


def coef_sign(conds):
    """+1 if the path knows coef >= 0 (or > 0), -1 if it knows coef < 0 (or <= 0 / not >= 0), else 0"""
    for t, pol in conds:
        m = re.fullmatch(r"\(?[A-Za-z_0-9]+\.coef\(i\)(>=|>|<|<=)0\)?", t)
        if m:
            op = m.group(1)
            if op in (">=", ">"):
                return 1 if pol else -1
            return -1 if pol else 1
        m = re.fullmatch(r"0(>=|>|<|<=)[A-Za-z_0-9]+\.coef\(i\)", t)
        if m:
            op = m.group(1)
            if op in ("<=", "<"):
                return 1 if pol else -1
            return -1 if pol else 1
    return 0


def orc_lin(conds, target):
    s = coef_sign(conds)
    return {1: "inc", -1: "dec", 0: "unk"}[s]


def orc_quad(conds, target):
    s = coef_sign(conds)
    both_nonneg = atom_sign(conds, r"lb\(var1\)>=0") is True and atom_sign(conds, r"lb\(var2\)>=0") is True
    both_nonpos = atom_sign(conds, r"ub\(var1\)<=0") is True and atom_sign(conds, r"ub\(var2\)<=0") is True
    if s == 0 or not (both_nonneg or both_nonpos):
        return "unk"
    prod = s * (1 if both_nonneg else -1)
    return "inc" if prod > 0 else "dec"


def orc_ifthen_cond(conds, target):
    if atom_sign(conds, r"lb\(args\[1\]\)>=ub\(args\[2\]\)") is True:
        return "inc"
    if atom_sign(conds, r"lb\(args\[2\]\)>=ub\(args\[1\]\)") is True:
        return "dec"
    return "unk"


def orc_pow(conds, target):
    """x^p: enumerate exponents and sign classes consistent with the path atoms"""
    import math

    def is_int(v):
        return float(v).is_integer()
    res = set()
    for p in (-3.0, -2.0, -1.5, -1.0, -0.5, 0.5, 1.0, 1.5, 2.0, 3.0, 4.0):
        for dom in ("nonneg", "nonpos", "mixed"):
            atoms = {
                r"is_integer_value(pwr)": is_int(p), r"is_integer_value(pwr/2)": is_int(p / 2),
                r"pwr>=0": p >= 0, r"lb(arg)>=0": dom == "nonneg", r"ub(arg)<=0": dom == "nonpos",
            }
            ok = True
            for t, pol in conds:
                val = eval_bool(t, atoms)
                if val is None:
                    return "unk"
                if val != pol:
                    ok = False
                    break
            if not ok:
                continue
            # true monotonicity of x^p on the domain class (where defined)
            if dom == "mixed":
                m = "inc" if (is_int(p) and p > 0 and not is_int(p / 2)) else "unk"
            elif dom == "nonneg":
                m = "inc" if p >= 0 else "dec"
            else:
                if not is_int(p):
                    m = "unk"
                elif p >= 0:
                    m = "dec" if is_int(p / 2) else "inc"
                else:
                    m = "inc" if is_int(p / 2) else "dec"
            res.add(m)
    if len(res) == 1:
        return res.pop()
    return "unk"


def eval_bool(t, atoms):
    """evaluate a condition text over named atoms; None if it mentions anything else"""
    s = t
    for a, v in sorted(atoms.items(), key=lambda kv: -len(kv[0])):
        s = s.replace(a, " True " if v else " False ")
    s = s.replace("&&", " and ").replace("||", " or ").replace("!", " not ")
    if re.search(r"[A-Za-z_]", s.replace("True", "").replace("False", "").replace("and", "").replace("or", "").replace("not", "")):
        return None
    try:
        return bool(eval(s, {"__builtins__": {}}, {}))
    except Exception:
        return None


def const_oracle(val):
    return lambda conds, target: val


# per overload (regex on the type of the first parameter): list of (sink name regex, target regex, oracle)
# oracle result: 'inc' | 'dec' | 'unk' | ('const', 'POS'|'NEG')
MONO = [
    (r"mp::LinearFunctionalConstraint", [("PropagateResult2LinTerms", r".*", const_oracle("inc"))]),
    (r"mp::QuadraticFunctionalConstraint", [("PropagateResult2LinTerms", r".*", const_oracle("inc")), ("PropagateResult2QuadTerms", r".*", const_oracle("inc"))]),
    (r"mp::AlgebraicConstraint<.*AlgConRange>", [("PropagateResult2Args", r".*", "range")]),
    (r"mp::IndicatorConstraint<", [("PropagateResultOfInitExpr", r".*get_binary_var.*", "indvar"), ("PropagateResult2Args", r".*", "indbody")]),
    (r"mp::SOS_1or2_Constraint<", [(".*", r".*", const_oracle("unk"))]),
    (r"mp::ComplementarityConstraint<", [(".*", r".*", const_oracle("unk"))]),
    (r"mp::CustomFunctionalConstraint<.*mp::NotConstraintId>", [("PropagateResultOfInitExpr", r".*", const_oracle("dec"))]),
    (r"mp::CustomFunctionalConstraint<.*mp::(AndConstraintId|OrConstraintId)>", [("PropagateResult2Vars", r".*", const_oracle("inc"))]),
    (r"mp::CustomFunctionalConstraint<.*mp::IfThenConstraintId>", [("PropagateIfThenResultIntoCondition", r".*", const_oracle("inc")),   # the helper is checked on its own
                                                          ("PropagateResultOfInitExpr", r"args\[[12]\]", const_oracle("inc"))]),
    (r"mp::CustomFunctionalConstraint<.*mp::ImplicationConstraintId>", [("PropagateResultOfInitExpr", r"args\[0\]", const_oracle("unk")),
                                                               ("PropagateResultOfInitExpr", r"args\[[12]\]", const_oracle("inc"))]),
    (r"mp::CustomFunctionalConstraint<.*mp::(AllDiffConstraintId|NumberofConstConstraintId|NumberofVarConstraintId)>", [(".*", r".*", const_oracle("unk"))]),
    (r"mp::CustomFunctionalConstraint<.*mp::PowConstraintId>", [("PropagateResult2Args", r".*", orc_pow)]),
    (r"mp::CustomFunctionalConstraint<.*mp::(Log|Exp|LogA|ExpA)ConstraintId>", None),      # outside the exact fragment: not judged
    (r"mp::ConditionalConstraint<mp::AlgebraicConstraint<.*AlgConRhs<0>", [(".*", r".*", const_oracle("unk"))]),
    (r"mp::ConditionalConstraint<mp::AlgebraicConstraint<.*AlgConRhs<-?[12]>", [("PropagateResult2Args", r".*", "condkind")]),
]
HELPERS = {
    "PropagateResult2LinTerms": [("PropagateResultOfInitExpr", r".*", orc_lin)],
    "PropagateResult2QuadTerms": [("PropagateResultOfInitExpr", r"var[12]", orc_quad)],
    "PropagateResult2QuadAndLinTerms": [("PropagateResult2LinTerms", r".*", const_oracle("inc")), ("PropagateResult2QuadTerms", r".*", const_oracle("inc"))],
    "PropagateResult2Vars": [("PropagateResultOfInitExpr", r".*", const_oracle("inc"))],
    "PropagateResult2Args": [(".*", r".*", const_oracle("inc"))],
    "PropagateIfThenResultIntoCondition": [("PropagateResultOfInitExpr", r"args\[0\]", orc_ifthen_cond)],
}


def run(rep, ctx):
    repo = ctx["repo"]
    _REPO[0] = repo
    fn = [r"mp::[A-Za-z_0-9]+Converter(_MIP)?(_CRTP)?::.*", r"mp::BasicFuncConstrCvt::.*",
          r"mp::ConstraintKeeper::(ConvertConstraint|ConvertAllFrom|MarkAsBridged)",
          r"mp::FlatConverter::(RunConversion|Convert|PropagateResultOfInitExpr|FixAsTrue|AddConstraint_AS_ROOT|AddConstraint|RedefineVariable)",
          r"mp::ConstraintPropagatorsDown::.*", r"mp::Context::.*", r"mp::ProblemFlattener::Convert"]
    d = export(U, fn=fn, enum=[r"mp::Context::CtxVal"], repo=repo)
    F = Facts([d])
    F_K1[0] = F
    rep.note_units([U])
    funcs = [f for f in F.funcs if not f.is_dependent() and f.cfg is not None]
    rep.note_funcs(funcs)

    broken = []
    for fn_, args_ in ((rule_X1, (rep, funcs)), (rule_A1, (rep, funcs, F)), (rule_P1, (rep, funcs)), (rule_D1, (rep, funcs)), (rule_K1, (rep, funcs)), (rule_M1, (rep, funcs)),
                       (rule_P2, (rep, funcs)), (rule_R1, (rep, funcs)), (rule_H1, (rep, repo)), (rule_H2, (rep, repo)), (rule_K2, (rep, repo)), (rule_L1, (rep, funcs)), (rule_L2, (rep, repo)), (rule_T2, (rep, repo))):
        try:
            fn_(*args_)
        except AnalysisBroken as ab:
            broken.append(str(ab))
    if broken:
        known = set()
        try:
            from ..evidence import load_known
            known = {k["key"] for k in load_known() if k.get("status") == "known"}
        except Exception:
            pass
        failing = [1 for rl in rep.rules for i in rl.instances if not i["ok"] and rl.full_key(i) not in known]
        if not failing:
            raise AnalysisBroken("; ".join(broken))
        rep.extra["analysis_incomplete"] = broken
    return rep


def first_param_type(f):
    return (f.params[0].get("ct") or f.params[0].get("t") or "") if f.params else ""


def rule_X1(rep, funcs):
    x1 = rep.rule("C01.X1", "TABLE", "a context other than mixed is passed down only on paths that entail the matching monotonicity", floor=40)
    props = [f for f in funcs if f.qn.startswith("mp::ConstraintPropagatorsDown::")]
    seen = set()
    for f in sorted(props, key=lambda g: g.full):
        ctxp = [p for p in f.params if "mp::Context" in (p.get("ct") or "")]
        name = f.qn.split("::")[-1]
        t0 = first_param_type(f).replace("const ", "").replace(" &", "")
        if name == "PropagateResult":
            spec = "none"
            for pat, sp in MONO:
                if re.search(pat, t0):
                    spec = sp
                    break
            if spec is None:
                continue                     # not judged (outside the exact fragment)
            m = re.search(r"mp::([A-Za-z_0-9]+)ConstraintId", t0)
            label = (m.group(1) + "Constraint") if m else re.sub(r"mp::|std::", "", t0)[:90]
        else:
            spec = HELPERS.get(name, "none")
            label = name
        if (name, t0) in seen and name != "PropagateResult":
            continue
        seen.add((name, t0))
        cp = CtxPaths(f, ctxp[-1]["declId"] if ctxp else None)
        paths = cp.run()
        nsink = 0
        for conds, sinks in paths:
            for sink, target, val, node in sinks:
                nsink += 1
                ctext = ",".join(("" if p else "!") + t for t, p in conds)
                key = "%s|%s(%s)|%s" % (label, sink, target[:40], ctext if len(ctext) < 60 else ctext[:40] + "#" + hashlib.md5(ctext.encode()).hexdigest()[:8])
                where = short_loc(node.get("l"))
                if val == "MIX":
                    x1.ok(key, where, "mixed context (always sound)")
                    continue
                if spec == "none":
                    raise AnalysisBroken("C01.X1: no reference monotonicity for %s (%s) which passes %s" % (label, f.full[:120], val))
                orc = None
                for sn, tg, o in spec:
                    if re.fullmatch(sn, sink) and re.fullmatch(tg, target):
                        orc = o
                        break
                if orc is None:
                    raise AnalysisBroken("C01.X1: %s: sink %s(%s) not in the reference table" % (label, sink, target))
                if isinstance(val, tuple):
                    x1.fail(key, where, "%s passes a context the analysis cannot follow (%s)" % (label, val[1]))
                    continue
                want = special(orc, f, t0, conds, target) if isinstance(orc, str) else orc(conds, target)
                if isinstance(want, tuple):        # constant reference (root constraints)
                    okv = val == want[1] or (val == "C" and want[1] == "POS") or (val == "-C" and want[1] == "NEG")
                    x1.check(okv, key, where, "%s -> %s gets %s (reference %s)" % (label, target, val, want[1]),
                             "%s: %s gets context %s where the constraint needs %s: the wrong direction of the defining relation is enforced" % (label, target, val, want[1]))
                    continue
                okv = (want == "inc" and val in ("C",)) or (want == "dec" and val == "-C")
                x1.check(okv, key, where, "%s: %s gets %s on a path where the expression is %s in it" % (label, target, val, {"inc": "non-decreasing", "dec": "non-increasing"}.get(want, want)),
                         "%s: %s gets context %s on a path [%s] where the expression is %s in that argument: only one direction of the argument's defining "
                         "relation is generated, and it is the wrong one (the delivered model is a relaxation)" %
                         (label, target, val, ", ".join(("" if p else "not ") + t for t, p in conds) or "unconditional",
                          {"inc": "non-decreasing", "dec": "non-increasing", "unk": "not known to be monotone"}[want]))
        if name == "PropagateResult" and nsink == 0 and spec != "none":
            raise AnalysisBroken("C01.X1: %s has no propagation sink" % label)


def special(kind, f, t0, conds, target):
    if kind == "condkind":
        m = re.search(r"AlgConRhs<(-?[0-9]+)>", t0)
        k = int(m.group(1))
        return "inc" if k > 0 else "dec"
    if kind == "range":
        # root range constraint lb <= body <= ub, truth in POS context: with lb = -inf only `body <= ub` matters
        # (body must be small: NEG), with ub = +inf POS, else both
        lo = atom_sign(conds, r"con\.lb\(\)<=\(?PracticallyMinusInf\(\)\)?")
        hi = atom_sign(conds, r"con\.ub\(\)>=\(?PracticallyInf\(\)\)?")
        if lo is True:
            return ("const", "NEG")
        if lo is False and hi is True:
            return ("const", "POS")
        return ("const", "MIX")
    if kind == "indvar":
        v = atom_sign(conds, r"1==con\.get_binary_value\(\)")
        if v is None:
            v0 = atom_sign(conds, r"0==con\.get_binary_value\(\)")
            v = None if v0 is None else (not v0)
        if v is None:
            return ("const", "MIX")
        return ("const", "NEG" if v else "POS")
    if kind == "indbody":
        m = re.search(r"AlgConRhs<(-?[0-9]+)>", t0)
        k = int(m.group(1))
        return "unk" if k == 0 else ("inc" if k > 0 else "dec")
    raise AnalysisBroken("C01.X1: unknown special oracle " + kind)


def nfacts(f, n):
    """facts at n: conjunctions flattened, negations folded into the polarity"""
    out = []

    def add(c, pol):
        c = strip(c)
        while c["k"] == "UnaryOperator" and c.get("op") == "!":
            pol = not pol
            c = strip(kids(c)[0])
        if c["k"] == "BinaryOperator" and ((c.get("op") == "&&" and pol) or (c.get("op") == "||" and not pol)):
            add(kids(c)[0], pol)
            add(kids(c)[1], pol)
            return
        out.append((nt(render(c)), pol))
    for cid, pol in f.cfg.facts_at(n):
        add(f.nodes[cid], pol)
    return sorted(set(out))


# ---------------------------------------------------------------------------------------------------
# A1 context algebra
# ---------------------------------------------------------------------------------------------------
VALS = ("CTX_NONE", "CTX_POS", "CTX_NEG", "CTX_MIX")


def rule_A1(rep, funcs, F):
    a1 = rep.rule("C01.A1", "TABLE", "context algebra: Add is the join of NONE < POS,NEG < MIX; negation swaps POS and NEG; + maps NONE to POS", floor=20)
    ev = None
    for q in ("mp::Context::CtxVal",):
        try:
            ev = F.enum_values(q)
        except Exception:
            ev = None
    if not ev or not all(v in ev for v in VALS):
        raise AnalysisBroken("C01.A1: enum mp::Context::CtxVal not found")
    num = {ev[v]: v for v in VALS}

    def one(qn):
        c = [f for f in funcs if f.qn == qn]
        if len(c) != 1:
            raise AnalysisBroken("C01.A1: %s: %d definitions" % (qn, len(c)))
        return c[0]

    def pred_set(f):
        """values for which a predicate `CTX_A==value_ || ...` returns true"""
        r = [x for x in f.walk() if x["k"] == "ReturnStmt"]
        if len(r) != 1:
            raise AnalysisBroken("C01.A1: %s is not a single return" % f.qn)
        out = set()

        def go(e):
            e = strip(e)
            if e["k"] == "BinaryOperator" and e.get("op") == "||":
                go(kids(e)[0]); go(kids(e)[1]); return
            if e["k"] == "BinaryOperator" and e.get("op") == "==":
                a, b = [strip(z) for z in kids(e)]
                c = a if a["k"] == "DeclRefExpr" else b
                m = b if c is a else a
                if c.get("name") in VALS and m["k"] == "MemberExpr" and m.get("name") == "value_":
                    out.add(c["name"]); return
            raise AnalysisBroken("C01.A1: unexpected predicate shape in %s: %s" % (f.qn, render(e)))
        go(kids(r[0])[0])
        return out
    want_pred = {"HasPositive": {"CTX_POS", "CTX_MIX"}, "HasNegative": {"CTX_NEG", "CTX_MIX"}, "IsPositive": {"CTX_POS"},
                 "IsNegative": {"CTX_NEG"}, "IsMixed": {"CTX_MIX"}, "IsNone": {"CTX_NONE"}}
    preds = {}
    for nm, w in want_pred.items():
        f = one("mp::Context::" + nm)
        preds[nm] = pred_set(f)
        a1.check(preds[nm] == w, "predicate|" + nm, short_loc(f.loc), "%s() is true exactly for %s" % (nm, sorted(w)), "%s() is true for %s, expected %s" % (nm, sorted(preds[nm]), sorted(w)))

    def unary_table(f):
        sw = [n for n in f.walk() if n["k"] == "SwitchStmt"]
        if len(sw) != 1:
            raise AnalysisBroken("C01.A1: %s without a single switch" % f.qn)
        secs = switch_sections(sw[0])
        tab = {}
        for v in VALS:
            sec = secs.get(ev[v], secs.get("default"))
            r = [x for s in (sec or []) for x in walk(s) if x["k"] == "ReturnStmt"]
            if not r:
                tab[v] = None
                continue
            e = strip(kids(r[0])[0])
            while e["k"] in ("CXXConstructExpr", "ImplicitCastExpr", "MaterializeTemporaryExpr") and kids(e):
                e = strip(kids(e)[0])
            tab[v] = e.get("name") if e["k"] == "DeclRefExpr" else (v if e["k"] == "MemberExpr" and e.get("name") == "value_" else None)
        return tab
    neg = unary_table(one("mp::Context::operator-"))
    pos = unary_table(one("mp::Context::operator+"))
    wneg = {"CTX_NONE": "CTX_NEG", "CTX_POS": "CTX_NEG", "CTX_NEG": "CTX_POS", "CTX_MIX": "CTX_MIX"}
    wpos = {"CTX_NONE": "CTX_POS", "CTX_POS": "CTX_POS", "CTX_NEG": "CTX_NEG", "CTX_MIX": "CTX_MIX"}
    fneg, fpos = one("mp::Context::operator-"), one("mp::Context::operator+")
    for v in VALS:
        a1.check(neg[v] == wneg[v], "negate|" + v, short_loc(fneg.loc), "-%s = %s" % (v, wneg[v]), "-%s = %s, expected %s" % (v, neg[v], wneg[v]))
        a1.check(pos[v] == wpos[v], "plus|" + v, short_loc(fpos.loc), "+%s = %s" % (v, wpos[v]), "+%s = %s, expected %s" % (v, pos[v], wpos[v]))
    # Add: evaluate every (stored, added) pair from the switch sections
    fadd = one("mp::Context::Add")
    sw = [n for n in fadd.walk() if n["k"] == "SwitchStmt"]
    if len(sw) != 1:
        raise AnalysisBroken("C01.A1: Context::Add without a single switch")
    secs = switch_sections(sw[0])
    order = {"CTX_NONE": 0, "CTX_POS": 1, "CTX_NEG": 1, "CTX_MIX": 2}

    def join(a, b):
        if a == b:
            return a
        if order[a] == 0:
            return b
        if order[b] == 0:
            return a
        return "CTX_MIX"

    def run_sec(sec, a, b):
        cur = a

        def assign_val(e):
            e = strip(e)
            if e["k"] == "DeclRefExpr" and e.get("name") in VALS:
                return e["name"]
            if e["k"] == "MemberExpr" and e.get("name") == "value_":
                o = strip(kids(e)[0])
                return a if o["k"] == "CXXThisExpr" else b
            raise AnalysisBroken("C01.A1: Add assigns %s" % render(e))

        def cond(c):
            c = strip(c)
            if c["k"] == "CXXMemberCallExpr" and c.get("callee", "").split("::")[-1] in preds:
                o = strip(call_object(c))
                val = b if o["k"] == "DeclRefExpr" else cur
                return val in preds[c["callee"].split("::")[-1]]
            if c["k"] == "UnaryOperator" and c.get("op") == "!":
                return not cond(kids(c)[0])
            raise AnalysisBroken("C01.A1: Add tests %s" % render(c))

        def go(s):
            nonlocal cur
            if s is None:
                return
            if s["k"] == "CompoundStmt":
                for x in kids(s):
                    go(x)
            elif s["k"] == "IfStmt":
                real = [x for x in s.get("c", []) if x is not None]
                if cond(real[0]):
                    go(real[1])
                elif len(real) > 2:
                    go(real[2])
            elif s["k"] == "BinaryOperator" and s.get("op") == "=":
                cur = assign_val(kids(s)[1])
            elif s["k"] in ("BreakStmt", "NullStmt"):
                return
            else:
                raise AnalysisBroken("C01.A1: statement %s in Context::Add" % s["k"])
        for s in sec:
            go(s)
        return cur
    for a in VALS:
        sec = secs.get(ev[a], secs.get("default", []))
        for b in VALS:
            got = run_sec(sec, a, b)
            a1.check(got == join(a, b), "add|%s+%s" % (a, b), short_loc(fadd.loc), "%s.Add(%s) = %s" % (a, b, got),
                     "%s.Add(%s) = %s, the join is %s: a direction required by one user of a shared expression is lost" % (a, b, got, join(a, b)))


# ---------------------------------------------------------------------------------------------------
# P1 / D1
# ---------------------------------------------------------------------------------------------------
def rule_P1(rep, funcs):
    p1 = rep.rule("C01.P1", "PATH", "a constraint is marked reformulated only after its conversion returned; missing converters raise; the tolerant loop swallows only conversion failures", floor=60)
    cc = [f for f in funcs if f.qn == "mp::ConstraintKeeper::ConvertConstraint"]
    if len(cc) < 40:
        raise AnalysisBroken("C01.P1: only %d ConvertConstraint instantiations" % len(cc))
    for f in cc:
        run = [c for c in f.walk() if c["k"] == "CXXMemberCallExpr" and c.get("callee", "").endswith("::RunConversion")]
        mark = [c for c in f.walk() if c["k"] in ("CXXMemberCallExpr",) and c.get("callee", "").endswith("::MarkAsBridged")]
        label = keeper_label(f)
        ok = len(run) == 1 and len(mark) >= 1 and all(f.cfg.dominates(run[0], m) for m in mark)
        p1.check(ok, "order|" + label, short_loc(f.loc), "%s: RunConversion dominates MarkAsBridged" % label,
                 "%s: MarkAsBridged is reachable without a completed RunConversion: if the conversion fails (the accepted-but-not-recommended loop "
                 "swallows the failure) the constraint is neither converted nor delivered" % label)
    caf = [f for f in funcs if f.qn == "mp::ConstraintKeeper::ConvertAllFrom"]
    for f in caf[:1] + caf[-1:]:
        catches = [c for c in f.walk() if c["k"] == "CXXCatchStmt"]
        tys = sorted((c.get("catchT") or "...").replace("const ", "").replace(" &", "").replace("mp::", "") for c in catches)
        p1.check(tys == ["ConstraintConversionFailure", "ConstraintConversionGracefulFailure"], "tolerant-loop|" + keeper_label(f), short_loc(f.loc),
                 "the tolerant loop catches exactly the two conversion-failure types", "catch handlers: %s" % tys)
        calls = [c for c in f.walk() if c["k"] == "CXXMemberCallExpr" and c.get("callee", "").endswith("::ConvertConstraint")]
        guards = 0
        for c in calls:
            fa = nfacts(f, c)
            if any(t.endswith(".IsBridged()") and pol is False for t, pol in fa):
                guards += 1
        p1.check(len(calls) == 3 and guards == 3, "not-twice|" + keeper_label(f), short_loc(f.loc), "all three loops convert only constraints not yet reformulated",
                 "%d ConvertConstraint calls, %d guarded by !IsBridged()" % (len(calls), guards))
    # default Convert raises
    dflt = [f for f in funcs if f.qn == "mp::FlatConverter::Convert" and len(f.params) == 1 and "Constraint" in (f.params[0].get("ct") or "")]
    generic = [f for f in dflt if not re.search(r"LinearFunctionalConstraint|QuadraticFunctionalConstraint", f.params[0].get("ct") or "")]
    n = 0
    for f in generic:
        thr = [x for x in f.walk() if x["k"] == "CXXThrowExpr"]
        adds = [c for c in f.walk() if c["k"] == "CXXMemberCallExpr" and "AddConstraint" in c.get("callee", "")]
        if adds:
            continue
        if "UnaryEncodingConstraintId" in (f.params[0].get("ct") or ""):
            # frozen exception: a marker constraint without relation of its own (its meaning is carried by the
            # linear constraints of the unary encoding, which are added when the flags are created)
            continue
        n += 1
        p1.check(bool(thr) and all(f.cfg.position(t) is not None for t in thr) and not any(r for r in f.walk() if r["k"] == "ReturnStmt"),
                 "default-raises|" + re.sub(r"mp::|std::|const | &", "", f.params[0].get("ct") or "")[:80], short_loc(f.loc),
                 "the converter-less default raises 'neither accepted nor conversion implemented'",
                 "the default Convert returns normally: a constraint type without converter is silently marked as reformulated and dropped")
    if n < 5:
        raise AnalysisBroken("C01.P1: only %d default Convert instantiations" % n)


def keeper_label(f):
    m = re.search(r"ConstraintKeeper<[^,]+(?:<[^>]*>)?, [^,]+, (.*)>::", f.full)
    t = m.group(1) if m else f.full
    m2 = re.search(r"mp::([A-Za-z_0-9]+)ConstraintId", t)
    return (m2.group(1) + "Constraint") if m2 else re.sub(r"mp::|std::", "", t)[:80]


def rule_D1(rep, funcs):
    d1 = rep.rule("C01.D1", "GUARD", "direction dispatch: negative (positive) conversion whenever the context has that part and the result bound does not imply it; unset context becomes mixed", floor=30)
    bc = [f for f in funcs if f.qn == "mp::BasicFuncConstrCvt::Convert"]
    if len(bc) < 8:
        raise AnalysisBroken("C01.D1: only %d BasicFuncConstrCvt::Convert instantiations" % len(bc))
    for f in bc:
        lab = re.sub(r"mp::|<.*", "", f.full.split("BasicFuncConstrCvt<")[1])[:40] + "|" + re.sub(r"mp::|std::|const | &", "", f.params[0].get("ct") or "")[-60:]
        res = {}
        for nm in ("ConvertCtxNeg", "ConvertCtxPos"):
            c = [x for x in f.walk() if x["k"] in ("CXXMemberCallExpr", "CallExpr") and x.get("callee", "").split("::")[-1] == nm]
            if len(c) != 1:
                res[nm] = None
                continue
            res[nm] = [x for x in nfacts(f, c[0]) if "IsNone" not in x[0]]
        loc = {v["name"]: nt(render(kids(v)[0])) for v in f.walk() if v["k"] == "VarDecl" and kids(v)}
        okl = loc.get("ctx") == "item.GetContext()" and loc.get("rv") == "item.GetResultVar()" and loc.get("bnd00") == "item.GetAprioriBounds()"
        wn = [("GetMC().lb(rv)<bnd00.second", True), ("ctx.HasNegative()", True)]
        wp = [("GetMC().ub(rv)>bnd00.first", True), ("ctx.HasPositive()", True)]
        got_n = [x for x in (res["ConvertCtxNeg"] or []) if x in wn]
        got_p = [x for x in (res["ConvertCtxPos"] or []) if x in wp]
        extra_p = [x for x in (res["ConvertCtxPos"] or []) if x not in wp and x not in wn and (x[0], not x[1]) not in wn]
        d1.check(okl and sorted(got_n) == sorted(wn) and len(res["ConvertCtxNeg"] or []) == 2 and sorted(got_p) == sorted(wp) and not extra_p, "dispatch|" + lab, short_loc(f.loc),
                 "Neg iff HasNegative && lb(res) < apriori ub;  Pos iff HasPositive && ub(res) > apriori lb (independent of the Neg branch)",
                 "guards: Neg under %s, Pos under %s, locals %s" % (res["ConvertCtxNeg"], res["ConvertCtxPos"], loc))
    rc = [f for f in funcs if f.qn == "mp::FlatConverter::RunConversion"]
    if len(rc) < 40:
        raise AnalysisBroken("C01.D1: only %d RunConversion instantiations" % len(rc))
    n = 0
    for f in rc:
        uses = [c for c in f.walk() if c["k"] in ("CallExpr", "CXXMemberCallExpr") and c.get("callee", "").endswith("::UsesContext")]
        val = None
        for i in [x for x in f.walk() if x["k"] == "IfStmt"]:
            if "UsesContext" in render(kids(i)[0]):
                val = cv(kids(i)[0])
        conv = [c for c in f.walk() if c["k"] in ("CXXMemberCallExpr", "CallExpr") and c.get("callee", "").split("::")[-1] == "Convert"]
        setc = [c for c in f.walk() if c["k"] == "CXXMemberCallExpr" and c.get("callee", "").endswith("::SetContext")]
        if not uses:
            raise AnalysisBroken("C01.D1: RunConversion without UsesContext test")
        lab = re.sub(r"mp::|std::|const | &", "", f.params[0].get("ct") or "")
        m2 = re.search(r"([A-Za-z_0-9]+)ConstraintId", lab)
        lab = (m2.group(1) + "Constraint") if m2 else lab[:80]
        if len(conv) != 1:
            d1.fail("unset->mixed|" + lab, short_loc(f.loc), "RunConversion does not call Convert exactly once (%d)" % len(conv))
            continue
        ok = True
        detail = "context not used by this type"
        if val is None or val:
            n += 1
            ok = len(setc) == 1 and "CTX_MIX" in render(setc[0]) and f.cfg.before(setc[0], conv[0]) and \
                any("IsNone()" in render(f.nodes[cid]) and pol for cid, pol in f.cfg.facts_at(setc[0]))
            detail = "an unset context is set to CTX_MIX before Convert"
        d1.check(ok, "unset->mixed|" + lab, short_loc(f.loc), detail,
                 "%s: a constraint converted with an unset context is not given the mixed context: no direction is generated" % lab)
    if n < 20:
        raise AnalysisBroken("C01.D1: only %d context-using RunConversion instantiations" % n)


# ---------------------------------------------------------------------------------------------------
# affine normal form of small arithmetic expressions: {atom: coef} with atom '' for the constant
# ---------------------------------------------------------------------------------------------------
def affine(e, f=None, subst=None):
    e = strip(e)
    k = e["k"]
    c = cv(e)
    if c is not None and k not in ("DeclRefExpr",):
        return {"": float(c)} if float(c) != 0 else {}
    if k == "BinaryOperator" and e.get("op") in ("+", "-"):
        a, b = affine(kids(e)[0], f, subst), affine(kids(e)[1], f, subst)
        out = dict(a)
        for t, v in b.items():
            out[t] = out.get(t, 0.0) + (v if e["op"] == "+" else -v)
        return {t: v for t, v in out.items() if v != 0}
    if k == "UnaryOperator" and e.get("op") in ("-", "+"):
        a = affine(kids(e)[0], f, subst)
        return {t: (-v if e["op"] == "-" else v) for t, v in a.items()}
    if k == "BinaryOperator" and e.get("op") == "*":
        l, r = kids(e)
        cl, cr = cv(l), cv(r)
        if cl is not None:
            return {t: v * float(cl) for t, v in affine(r, f, subst).items()}
        if cr is not None:
            return {t: v * float(cr) for t, v in affine(l, f, subst).items()}
    if k == "DeclRefExpr" and subst and e.get("declId") in subst:
        return affine(subst[e["declId"]], f, subst)
    if k in ("CXXConstructExpr", "InitListExpr", "CXXFunctionalCastExpr") and len([x for x in kids(e) if x is not None]) == 1:
        return affine([x for x in kids(e) if x is not None][0], f, subst)
    return {nt(render(e)): 1.0}


def aff_eq(a, b):
    ks = set(a) | set(b)
    return all(abs(a.get(t, 0.0) - b.get(t, 0.0)) < 1e-12 for t in ks)


def local_inits(f):
    return {v["declId"]: kids(v)[0] for v in f.walk() if v["k"] == "VarDecl" and kids(v) and v.get("declId")}


F_K1 = [None]


def rule_T2(rep, repo):
    """the type computed for a linear body (it selects the comparison tolerance, the rounding of right-hand sides and the type of
    result variables): the clause C06.B1|linear-type, read on the same function"""
    t2 = rep.rule("C01.T2", "TABLE", "a linear body is integer-valued only if every variable is integer and every coefficient integral", floor=1)
    d = export(U, fn=[r"mp::BoundComputations::ComputeBoundsAndType"], repo=repo)
    F = Facts([d])
    lin = [f for f in F.funcs if f.qn == "mp::BoundComputations::ComputeBoundsAndType" and not f.is_dependent() and f.cfg is not None and f.params and
           "LinTerms" in (f.params[0].get("t") or "") and "Quad" not in (f.params[0].get("t") or "")]
    if not lin:
        raise AnalysisBroken("C01.T2: ComputeBoundsAndType(LinTerms) not found")
    f = lin[0]
    ty = [n for n in f.walk() if n["k"] == "IfStmt" and "CONTINUOUS" in render(kids(n)[1])]
    ok = len(ty) == 1 and "INTEGER!=model.var_type(v)||!is_integer(c)" in nt(render(kids(ty[0])[0])).replace("var::", "").replace("mp::", "")
    init_int = any(n["k"] == "BinaryOperator" and n.get("op") == "=" and "type_" in render(kids(n)[0]) and "INTEGER" in render(kids(n)[1]) for n in f.walk()) or \
        any("INTEGER" in render(v) for v in f.walk() if v["k"] == "VarDecl")
    t2.check(ok, "linear-type", short_loc(f.loc), "the sum becomes CONTINUOUS as soon as a variable is not integer or a coefficient is not integral",
             "the type of a linear body no longer depends on its coefficients (or variables): 0.5*x over an integer x is declared integer, so strict comparisons get the "
             "integer tolerance, fractional right-hand sides are rounded and auxiliary variables are declared integer - feasible points are cut off")


def rule_L2(rep, repo):
    """the breakpoint form of a piecewise-linear term given by slopes: evaluated on modelled breakpoint / slope lists"""
    from ..cfg import MiniInt
    from ..facts import export_many
    l2 = rep.rule("C01.L2", "TABLE", "a piecewise-linear term given by breakpoints and slopes is turned into points of the same function "
                  "(through the reference point, with the given slopes), wherever the breakpoints lie relative to the reference point", floor=5)
    F = Facts(export_many([dict(unit="src/mp/flat/piecewise_linear.cpp", fn=[r"mp::PLPoints::PLPoints"], repo=repo)]))
    cs = [f for f in F.funcs if f.qn == "mp::PLPoints::PLPoints" and f.params and "PLSlopes" in (f.params[0].get("ct") or f.params[0].get("t") or "") and f.cfg is not None]
    if not cs:
        raise AnalysisBroken("C01.L2: PLPoints(const PLSlopes&) not found")
    f = cs[0]
    CASES = [([-5.0, -3.0], [1.0, 2.0, 3.0]), ([1.0, 3.0], [2.0, -1.0, 0.5]), ([-1.0, 2.0], [1.0, 0.0, 4.0]), ([-3.0, -1.0], [2.0, 1.0, -2.0]),
             ([0.0], [-1.0, 1.0]), ([4.0], [3.0, 1.0]), ([-6.0], [0.5, 2.0]), ([-2.0, 0.0, 5.0], [1.0, 2.0, 3.0, 4.0])]
    for bp, sl in CASES:
        arr = {"x_": [], "y_": [], "bp": list(bp), "sl": list(sl)}
        box = {}

        def which(node):
            t = render(node).replace(" ", "").replace("this->", "")
            for nm in ("x_", "y_", "bp", "sl"):
                if t == nm or t.endswith("." + nm) or t == "pls.Get%s()" % {"bp": "BP", "sl": "Slopes"}.get(nm, "?"):
                    return nm
            return None

        def atom(t_, n_, env_):
            k_ = n_["k"]
            if k_ == "CXXOperatorCallExpr" and n_.get("op") == "[]":
                nm = which(call_args(n_)[0])
                if nm:
                    i_ = int(box["mi"].expr(call_args(n_)[1], env_, 0))
                    if not (0 <= i_ < len(arr[nm])):
                        raise AnalysisBroken("index %d outside %s (size %d)" % (i_, nm, len(arr[nm])))
                    return arr[nm][i_]
            if k_ == "CXXMemberCallExpr":
                cn_ = (n_.get("callee") or "").split("::")[-1]
                ob_ = which(call_object(n_)) if call_object(n_) is not None else None
                if cn_ == "size" and ob_:
                    return len(arr[ob_])
                if cn_ == "resize" and ob_:
                    n_new = int(box["mi"].expr(call_args(n_)[0], env_, 0))
                    arr[ob_] = (arr[ob_] + [0.0] * n_new)[:n_new]
                    return 0
                if cn_ == "GetX0":
                    return 0.0
                if cn_ == "GetY0":
                    return 0.0
            if k_ == "CallExpr" and (n_.get("callee") or "").split("::")[-1] == "copy" and len(call_args(n_)) == 3:
                a0, a1, a2 = [render(x).replace(" ", "").replace("this->", "") for x in call_args(n_)]
                m_ = re.match(r"^(\w+)\.begin\(\)(\+(\d+))?$", a2)
                if a0 in ("bp.begin()", "pls.GetBP().begin()") and a1 in ("bp.end()", "pls.GetBP().end()") and m_ and m_.group(1) in arr:
                    off = int(m_.group(3) or 0)
                    for j_, v_ in enumerate(arr["bp"]):
                        if not (0 <= off + j_ < len(arr[m_.group(1)])):
                            raise AnalysisBroken("copy writes outside %s" % m_.group(1))
                        arr[m_.group(1)][off + j_] = v_
                    return 0
            return None

        def store(t_, n_, val, env_):
            if n_["k"] == "CXXOperatorCallExpr" and n_.get("op") == "[]":
                nm = which(call_args(n_)[0])
                if nm:
                    i_ = int(box["mi"].expr(call_args(n_)[1], env_, 0))
                    if not (0 <= i_ < len(arr[nm])):
                        raise AnalysisBroken("store at %d outside %s" % (i_, nm))
                    arr[nm][i_] = val
                    return True
            return False
        mi = MiniInt(F, atom)
        mi.store = store
        box["mi"] = mi
        why = None
        try:
            mi.call(f, [("obj", None, None)])
        except AnalysisBroken as e_:
            if "without a return" not in str(e_):
                why = "not evaluable: %s" % str(e_)[:100]
        if why is None:
            # the function with these slopes through (0, 0): value at x
            def fval(x):
                pts = [0.0] + sorted(bp)
                segs = list(zip([float("-inf")] + list(bp), list(bp) + [float("inf")], sl))
                tot, lo_, hi_ = 0.0, min(0.0, x), max(0.0, x)
                for a, b, s_ in segs:
                    l, h = max(a, lo_), min(b, hi_)
                    if h > l:
                        tot += s_ * (h - l)
                return tot if x >= 0 else -tot
            xs, ys = arr["x_"], arr["y_"]
            if len(xs) != len(sl) + 1 or xs[1:-1] != list(bp) or not (xs[0] < bp[0] and xs[-1] > bp[-1]):
                why = "points x = %s for breakpoints %s" % (xs, bp)
            else:
                bad = [(x_, y_, fval(x_)) for x_, y_ in zip(xs, ys) if abs(y_ - fval(x_)) > 1e-9]
                if bad:
                    why = "point (%g, %g) is not on the function (value there: %g)" % bad[0]
        l2.check(why is None, "pl-points|bp=%s" % ",".join("%g" % b for b in bp), short_loc(f.loc),
                 "breakpoints %s, slopes %s: every point lies on the function through the origin" % (bp, sl),
                 "breakpoints %s, slopes %s: %s - the delivered piecewise-linear function differs from the term by a constant" % (bp, sl, why))


def rule_K1(rep, funcs):
    k1 = rep.rule("C01.K1", "TABLE", "conditional comparisons: output sense, epsilon and indicator value per input comparison and direction; equality: indicator / disjunction of strict sides", floor=30)
    cvt = [f for f in funcs if f.qn.startswith("mp::Cond_LE_LT_GT_GE_Converter_MIP::")]
    n = 0
    for f in sorted(cvt, key=lambda g: g.full):
        m = re.search(r"AlgConRhs<(-?[0-9]+)>>>::", f.full)
        if not m:
            continue
        kin = int(m.group(1))
        body = "Quad" if "QuadAndLinTerms" in f.full else "Lin"
        sgn = 1 if kin > 0 else -1
        if f.name in ("ConvertCtxPos", "ConvertCtxNeg"):
            n += 1
            pos = f.name == "ConvertCtxPos"
            calls = [c for c in f.walk() if c["k"] == "CXXMemberCallExpr" and c.get("callee", "").endswith("::ConvertCondIneq")]
            key = "ineq|%s|kind %d|%s" % (body, kin, "pos" if pos else "neg")
            if len(calls) != 1:
                k1.fail(key, short_loc(f.loc), "%d calls of ConvertCondIneq" % len(calls))
                continue
            c = calls[0]
            mo = re.search(r"ConvertCondIneq<(-?[0-9]+)>$", c.get("calleeFull", ""))
            ko = int(mo.group(1)) if mo else None
            a = call_args(c)
            val = cv(a[1])
            inits = local_inits(f)
            e = strip(a[2])
            reassigned = {strip(kids(n_)[0]).get("declId") for n_ in f.walk()
                          if n_["k"] in ("BinaryOperator", "CompoundAssignOperator") and n_.get("op", "").endswith("=") and n_.get("op") not in ("==", "!=", "<=", ">=")}
            unknown_ = False
            while e["k"] == "DeclRefExpr" and e.get("declId") in inits:
                if e.get("declId") in reassigned:
                    unknown_ = True           # the initialiser is not the value that reaches the call
                    break
                e = strip(inits[e["declId"]])
            while e["k"] in ("ExprWithCleanups", "ParenExpr"):
                e = strip(kids(e)[0])
            # fold the compile-time conditional
            while e["k"] == "ConditionalOperator" and cv(kids(e)[0]) is not None:
                e = strip(kids(e)[1] if cv(kids(e)[0]) else kids(e)[2])
            if unknown_:
                eps_sign = None
            elif cv(e) is not None:
                eps = float(cv(e))
                eps_sign = 0 if eps == 0 else None
            else:
                af = affine(e)
                atoms = [t for t in af if t]
                eps_sign = None
                if len(atoms) == 1 and "ComparisonEps(" in atoms[0] and not af.get(""):
                    eps_sign = 1 if af[atoms[0]] == 1.0 else (-1 if af[atoms[0]] == -1.0 else None)
            if eps_sign is None:
                # the tolerance reaches the call through assignments / helpers: evaluate the function with ComparisonEps(..) = E
                E_ = 1000.0
                rec_ = []
                box_ = {}

                def atom_(t_, n_, env_):
                    if n_["k"] in ("CXXMemberCallExpr", "CallExpr"):
                        nm_ = (n_.get("callee") or "").split("::")[-1]
                        if nm_ == "ConvertCondIneq":
                            rec_.append(box_["mi"].expr(call_args(n_)[2], env_, 0))
                            return 0
                        if nm_ == "ComparisonEps":
                            return E_
                        if "ComparisonEps" in nm_ and getattr(F_K1[0], "_by_id", {}).get(n_.get("calleeId")) is None:
                            return E_
                    return None
                from ..cfg import MiniInt as _MI
                mi_ = _MI(F_K1[0], atom_)
                box_["mi"] = mi_
                try:
                    mi_.call(f, [("obj", None, None), 0])
                except AnalysisBroken as e_:
                    if "without a return" not in str(e_):
                        rec_ = []
                if len(rec_) == 1 and rec_[0] in (0.0, E_, -E_):
                    eps_sign = 0 if rec_[0] == 0 else (1 if rec_[0] > 0 else -1)
            strict = abs(kin) == 2
            w_ko = sgn if pos else -sgn
            w_val = 1 if pos else 0
            w_eps = (w_ko if strict else 0) if pos else (0 if strict else w_ko)
            k1.check(ko == w_ko and val == w_val and eps_sign == w_eps, key, short_loc(f.loc),
                     "kind %d, %s: result==%d => body %s rhs %s" % (kin, "positive" if pos else "negative", w_val, "<=" if w_ko < 0 else ">=",
                                                                     {0: "", 1: "+ eps", -1: "- eps"}[w_eps]),
                     "kind %d (%s), %s context: result==%s => body %s rhs %s; the reference is result==%d => body %s rhs %s" %
                     (kin, {-2: "<", -1: "<=", 1: ">=", 2: ">"}[kin], "positive" if pos else "negative", val, {-1: "<=", 1: ">=", None: "?"}[ko],
                      {0: "", 1: "+ eps", -1: "- eps", None: "(unrecognised eps)"}[eps_sign], w_val, "<=" if w_ko < 0 else ">=", {0: "", 1: "+ eps", -1: "- eps"}[w_eps]))
        elif f.name == "ConvertCondIneq":
            mo = re.search(r"ConvertCondIneq<(-?[0-9]+)>$", f.full)
            ko = int(mo.group(1))
            key = "ineq-body|%s|kind %d|out %d" % (body, kin, ko)
            adds = [c for c in f.walk() if c["k"] == "CXXMemberCallExpr" and c.get("callee", "").endswith("::AddConstraint")]
            pn = {p["name"]: p["declId"] for p in f.params}
            ok = len(adds) == 2
            det = []
            for c in adds:
                t = (c.get("calleeFull") or "")
                ind = "IndicatorConstraint<" in t
                okt = ("AlgConRhs<%d>" % ko) in t
                cons = [x for x in walk(c) if x["k"] in ("CXXConstructExpr", "CXXTemporaryObjectExpr", "InitListExpr", "CXXFunctionalCastExpr")]
                rhs_ok = any(aff_eq(affine(z), {"con.rhs()": 1.0, "eps": 1.0}) for x in cons for z in kids(x) if z is not None and z.get("ct") == "double")
                fa = nfacts(f, c)
                if ind:
                    args_ok = any(x["k"] in ("CXXConstructExpr", "CXXTemporaryObjectExpr") and "IndicatorConstraint" in (x.get("ct") or "") and len(kids(x)) >= 3 and
                                  nt(render(kids(x)[0])) == "res" and nt(render(kids(x)[1])) == "value" for x in cons)
                    g_ok = ("GetMC().is_fixed(res)", False) in fa and ("con.empty()", False) in fa
                else:
                    args_ok = True
                    g_ok = ("GetMC().is_fixed(res)", True) in fa and ("value==GetMC().fixed_value(res)", True) in fa
                det.append((ind, okt, rhs_ok, args_ok, g_ok))
                ok = ok and okt and rhs_ok and args_ok and g_ok
            nb = [c for c in f.walk() if c["k"] == "CXXMemberCallExpr" and c.get("callee", "").endswith("::NarrowVarBounds")]
            ok_e = len(nb) == 1 and [nt(render(x)) for x in call_args(nb[0])] == ["res", "!value", "!value"]
            if ok_e:
                fa = nfacts(f, nb[0])
                okc = False
                for cid, pol in f.cfg.facts_at(nb[0]):
                    cn = strip(f.nodes[cid])
                    if pol and cn["k"] == "BinaryOperator" and cn.get("op") == ">" and cv(kids(cn)[1]) == 0:
                        okc = aff_eq(affine(kids(cn)[0]), {"con.rhs()": float(ko), "eps": float(ko)})
                ok_e = ("con.empty()", True) in fa and okc
            k1.check(ok and ok_e, key, short_loc(f.loc), "result==value => body (kind %d) rhs+eps as indicator, or as static constraint when the result is fixed to value; "
                     "empty body: result fixed to !value when 0 (kind) rhs+eps is false" % ko, "constraints %s, empty-body rule ok=%s" % (det, ok_e))
    if n < 16:
        raise AnalysisBroken("C01.K1: only %d conditional comparison conversions" % n)
    # equality
    for f in sorted([g for g in funcs if g.qn.startswith("mp::CondEQConverter_MIP::")], key=lambda g: g.full):
        body = "Quad" if "QuadAndLinTerms" in f.full else "Lin"
        if f.name == "ConvertCtxPos":
            adds = [c for c in f.walk() if c["k"] == "CXXMemberCallExpr" and c.get("callee", "").endswith("::AddConstraint")]
            ind = [c for c in adds if "IndicatorConstraint<" in (c.get("calleeFull") or "")]
            ok = len(ind) == 1 and "AlgConRhs<0>" in ind[0].get("calleeFull", "")
            if ok:
                x = [y for y in walk(ind[0]) if y["k"] in ("CXXConstructExpr", "CXXTemporaryObjectExpr") and "IndicatorConstraint" in (y.get("ct") or "") and len(kids(y)) >= 3]
                ok = bool(x) and [nt(render(z)) for z in kids(x[0])[:3]] == ["res", "1", "con"]
                fa = nfacts(f, ind[0])
                ok = ok and ("GetMC().is_fixed(res)", False) in fa
            st = [c for c in adds if c not in ind]
            ok2 = len(st) == 1 and nt(render(call_args(st[0])[0])) == "con" and ("GetMC().fixed_value(res)", True) in nfacts(f, st[0])
            k1.check(ok and ok2, "eq|%s|pos" % body, short_loc(f.loc), "positive: result==1 => body == rhs (static when the result is fixed to 1)")
        if f.name == "ConvertCtxNeg":
            adds = [c for c in f.walk() if c["k"] == "CXXMemberCallExpr" and c.get("callee", "").endswith("::AddConstraint")]
            ge = [c for c in adds if "AlgConRhs<1>" in c.get("calleeFull", "") and "IndicatorConstraint" not in c.get("calleeFull", "")]
            lo = [c for c in adds if "IndicatorConstraint<mp::AlgebraicConstraint<" in c.get("calleeFull", "") and "AlgConRhs<-1>" in c.get("calleeFull", "")]
            hi = [c for c in adds if "IndicatorConstraint<mp::AlgebraicConstraint<" in c.get("calleeFull", "") and "AlgConRhs<1>" in c.get("calleeFull", "")]
            ok = len(adds) == 3 and len(ge) == 1 and len(lo) == 1 and len(hi) == 1
            det = ""
            if ok:
                def ind_parts(c):
                    x = [y for y in walk(c) if y["k"] in ("CXXConstructExpr", "CXXTemporaryObjectExpr") and "IndicatorConstraint" in (y.get("ct") or "") and len(kids(y)) >= 3][0]
                    b, v = nt(render(kids(x)[0])), cv(kids(x)[1])
                    rh = [affine(z) for y in walk(kids(x)[2]) for z in kids(y) if z is not None and z.get("ct") == "double" and y["k"] in ("InitListExpr", "CXXConstructExpr", "CXXTemporaryObjectExpr")]
                    return b, v, rh
                bl, vl, rl = ind_parts(lo[0])
                bh, vh, rh_ = ind_parts(hi[0])
                ok = bl == "newvars[0]" and bh == "newvars[1]" and vl == 1 and vh == 1 and \
                    any(aff_eq(r, {"con.rhs()": 1.0, "cmpEps": -1.0}) for r in rl) and any(aff_eq(r, {"con.rhs()": 1.0, "cmpEps": 1.0}) for r in rh_)
                gt = nt(render(call_args(ge[0])[0]))
                ok = ok and re.search(r"\(1,1,1\)", gt) is not None and re.search(r"newvars\),1,?\)$", gt) is not None
                det = "lo=%s hi=%s ge=%s" % ((bl, vl, rl), (bh, vh, rh_), gt)
                pb = [c for c in f.walk() if c["k"] == "CXXMemberCallExpr" and c.get("callee", "").endswith("::push_back") and nt(render(call_object(c))) == "newvars"]
                ok = ok and len(pb) == 1 and nt(render(call_args(pb[0])[0])) == "res" and f.cfg.before(pb[0], ge[0])
                ce = [v for v in f.walk() if v["k"] == "VarDecl" and v.get("name") == "cmpEps"]
                ok = ok and len(ce) == 1 and "ComparisonEps(" in render(ce[0])
            k1.check(ok, "eq|%s|neg" % body, short_loc(f.loc), "negative: b1 + b2 + result >= 1, b1==1 => body <= rhs - eps, b2==1 => body >= rhs + eps", det)


def rule_M1(rep, funcs):
    m1 = rep.rule("C01.M1", "FLOW", "big-M: bound of the same body, infinite bound replaced by cvt:bigM or refused, coefficient/rhs affine forms per binary value", floor=7)

    def one(qn):
        c = [f for f in funcs if f.qn == qn]
        if len(c) != 1:
            raise AnalysisBroken("C01.M1: %s: %d definitions" % (qn, len(c)))
        return c[0]
    for side, cls, helper, bnd, bname, msign in (("LE", "IndicatorLinLEConverter_MIP", "ConvertImplicationLE", "ub", "body_ub", 1),
                                                 ("GE", "IndicatorLinGEConverter_MIP", "ConvertImplicationGE", "lb", "body_lb", -1)):
        f = one("mp::%s::Convert" % cls)
        calls = [c for c in f.walk() if c["k"] == "CXXMemberCallExpr" and c.get("callee", "").endswith("::" + helper)]
        inits = {v["name"]: nt(render(kids(v)[0])) for v in f.walk() if v["k"] == "VarDecl" and kids(v)}
        ok = len(calls) == 1 and [nt(render(a)) for a in call_args(calls[0])] == ["binvar", "indc.get_binary_value()", "bnds.%s()" % bnd, "indc.get_constraint()"] and \
            inits.get("binvar") == "indc.get_binary_var()" and inits.get("bnds") == "GetMC().ComputeBoundsAndType(indc.get_constraint().GetBody())"
        m1.check(ok, "%s|bound-of-same-body" % side, short_loc(f.loc), "%s: M from the %s of the body of the same constraint, binary and value of the same indicator" % (side, bnd),
                 "call %s, locals %s" % ([[nt(render(a)) for a in call_args(c)] for c in calls], inits))
        h = one("mp::%s::%s" % (cls, helper))
        add = [c for c in h.walk() if c["k"] == "CXXMemberCallExpr" and c.get("callee", "").endswith("::AddConstraint")]
        terms = [c for c in h.walk() if c["k"] == "CXXMemberCallExpr" and c.get("callee", "").endswith("::add_term")]
        setr = [c for c in h.walk() if c["k"] == "CXXMemberCallExpr" and c.get("callee", "").endswith("::set_rhs")]
        okb = len(add) == 1 and len(terms) == 2
        det = []
        if okb:
            for t in terms:
                fa = dict(nfacts(h, t))
                v0 = fa.get("0==val", None)
                if v0 is None and "val==0" in fa:
                    v0 = fa["val==0"]
                if v0 is None and "1==val" in fa:
                    v0 = not fa["1==val"]
                a = call_args(t)
                co = affine(a[0])
                okv = nt(render(a[1])) == "b" and nt(render(call_object(t))) == "con.GetBody()"
                if v0 is True:
                    okt = aff_eq(co, {bname: -1.0, "con.rhs()": 1.0}) and not any(h.cfg.before(t, s) or h.cfg.before(s, t) for s in setr if dict(nfacts(h, s)).get("0==val") is True)
                    okt = okt and not [s for s in setr if dict(nfacts(h, s)).get("0==val") is True]
                elif v0 is False:
                    ss = [s for s in setr if dict(nfacts(h, s)).get("0==val") is False]
                    okt = aff_eq(co, {bname: 1.0, "con.rhs()": -1.0}) and len(ss) == 1 and nt(render(call_args(ss[0])[0])) == bname and h.cfg.before(t, ss[0])
                else:
                    okt = False
                det.append((v0, co, okt, okv))
                okb = okb and okt and okv and h.cfg.before(t, add[0])
            fa = dict(nfacts(h, add[0]))
            okb = okb and fa.get("%s!=con.rhs()" % bname) is True and nt(render(call_args(add[0])[0])) == "con"
        m1.check(okb, "%s|coefficients" % side, short_loc(h.loc),
                 "%s: value 0: body + (rhs - %s)*b (sense) rhs;  value 1: body + (%s - rhs)*b (sense) %s (term added before the rhs is replaced)" % (side, bname, bname, bname),
                 "%s: big-M terms %s" % (side, det))
        # infinite bound
        thr = [t for t in h.walk() if t["k"] == "CXXThrowExpr"]
        asg = [n for n in h.walk() if n["k"] == "BinaryOperator" and n.get("op") == "=" and nt(render(kids(n)[0])) == bname]
        inf_atom = "%s>=GetMC().PracticallyInf()" % bname if side == "LE" else "%s<=GetMC().PracticallyMinusInf()" % bname
        oki = len(thr) == 1 and len(asg) == 1 and aff_eq(affine(kids(asg[0])[1]), {"GetMC().bigMDefault()": float(msign)})
        if oki:
            fa = dict(nfacts(h, thr[0]))
            cmpop = "<=0" if side == "LE" else ">=0"
            embedded = any(bname in t and "bigMDefault()" in t and t.endswith(cmpop) and p for t, p in fa.items())
            separate = any(t.replace("0.0", "0") in (bname + cmpop,) and p for t, p in fa.items()) and h.cfg.dominates(asg[0], thr[0])
            oki = fa.get(inf_atom) is True and (embedded or separate) and "ConstraintConversionFailure" in render(thr[0])
            oki = oki and dict(nfacts(h, asg[0])).get(inf_atom) is True
        m1.check(oki, "%s|infinite-bound" % side, short_loc(h.loc), "%s: an infinite bound is replaced by %scvt:bigM, and the conversion is refused (ConstraintConversionFailure) when that is not positive" %
                 (side, "" if side == "LE" else "-"), "throws %d, assignments %s" % (len(thr), [nt(render(a)) for a in asg]))
    f = one("mp::IndicatorLinEQConverter_MIP::Convert")
    calls = [c for c in f.walk() if c["k"] == "CXXMemberCallExpr" and c.get("callee", "").endswith("::ConvertImplicationLE")]
    neg = [c for c in f.walk() if c["k"] == "CXXMemberCallExpr" and c.get("callee", "").endswith("::negate") and nt(render(call_object(c))) == "con"]
    nb = [c for c in f.walk() if c["k"] == "CXXMemberCallExpr" and c.get("callee", "").endswith("::NegateBounds") and nt(render(call_object(c))) == "bnds"]
    ok = len(calls) == 2 and len(neg) == 1 and len(nb) == 1
    if ok:
        calls.sort(key=lambda c: 0 if f.cfg.before(c, neg[0]) else 1)
        a0, a1 = [[nt(render(a)) for a in call_args(c)] for c in calls]
        ok = a0[:3] == ["binvar", "indc.get_binary_value()", "bnds.ub()"] and a1[:3] == a0[:3] and a0[3] == "con" and "con" in a1[3] and \
            f.cfg.before(calls[0], neg[0]) and f.cfg.before(neg[0], calls[1]) and f.cfg.before(calls[0], nb[0]) and f.cfg.before(nb[0], calls[1])
        inits = {v["name"]: nt(render(kids(v)[0])) for v in f.walk() if v["k"] == "VarDecl" and kids(v)}
        ok = ok and inits.get("bnds") == "GetMC().ComputeBoundsAndType(indc.get_constraint().GetBody())" and \
            re.search(r"indc\.get_constraint\(\)\.GetBody\(\),indc\.get_constraint\(\)\.rhs\(\)", inits.get("con", "")) is not None
    m1.check(ok, "EQ|two-sides", short_loc(f.loc), "EQ: <= with the upper bound, then the negated constraint with the negated bounds")
    nt_ = [g for g in funcs if g.qn in ("mp::AlgebraicConstraint::negate", "mp::PreprocessInfo::NegateBounds")]


# ---------------------------------------------------------------------------------------------------
# P2 every conversion adds something
# ---------------------------------------------------------------------------------------------------
ADDERS = {"AddConstraint", "AddConstraint_AS_ROOT", "AssignResult2Args", "AssignResultVar2Args", "RedefineVariable", "NarrowVarBounds", "FixAsTrue",
          "AddVar", "AddVars_returnIds", "PropagateResultOfInitExpr", "AddQuadraticConstraint", "set_var_lb", "set_var_ub",
          "AddWarning"}
ADDERS.discard("AddWarning")


class AddPaths:
    """structured path enumeration: does every normally ending path execute an adding call?"""

    def __init__(self, f, is_add_call):
        self.f = f
        self.is_add = is_add_call
        self.ends = []        # (conds, added, how)
        self.budget = 4000

    def run(self):
        self.stmt(self.f.body, [], False, lambda c, a: self.ends.append((c, a, "end")))
        return self.ends

    def atoms(self, c, pol):
        c = strip(c)
        while c["k"] == "UnaryOperator" and c.get("op") == "!":
            pol = not pol
            c = strip(kids(c)[0])
        if c["k"] == "BinaryOperator" and ((c.get("op") == "&&" and pol) or (c.get("op") == "||" and not pol)):
            return self.atoms(kids(c)[0], pol) + self.atoms(kids(c)[1], pol)
        t = nt(render(c))
        AddPaths.reg[t] = (self.f, c)
        return [(t, pol)]

    reg = {}          # atom text -> (function, node)

    def expr_adds(self, e):
        for x in walk(e):
            if x["k"] in ("CXXMemberCallExpr", "CallExpr", "CXXOperatorCallExpr") and self.is_add(x):
                return True
        return False

    def stmt(self, s, conds, added, k):
        self.budget -= 1
        if self.budget < 0:
            raise AnalysisBroken("C01.P2: path budget exceeded in %s" % self.f.full[:100])
        if s is None:
            return k(conds, added)
        kind = s["k"]
        if kind == "CompoundStmt":
            items = [x for x in s.get("c", []) if x is not None]

            def seq(i, c, a):
                if i == len(items):
                    return k(c, a)
                return self.stmt(items[i], c, a, lambda c2, a2: seq(i + 1, c2, a2))
            return seq(0, conds, added)
        if kind == "IfStmt":
            real = [x for x in s.get("c", []) if x is not None]
            # `if (init; cond)` is not used in the converters
            cnd, then = real[0], real[1]
            els = real[2] if len(real) > 2 else None
            val = cv(cnd)
            a0 = added or self.expr_adds(cnd)
            if val is None or val:
                self.stmt(then, conds + (self.atoms(cnd, True) if val is None else []), a0, k)
            if val is None or not val:
                self.stmt(els, conds + (self.atoms(cnd, False) if val is None else []), a0, k)
            return
        if kind in ("ForStmt", "CXXForRangeStmt", "WhileStmt", "DoStmt"):
            ch = [x for x in s.get("c", []) if x is not None]
            body = ch[-1] if kind != "DoStmt" else ch[0]
            a0 = added or any(self.expr_adds(x) for x in ch if x is not body)
            # one iteration (argument lists are assumed non-empty)
            return self.stmt(body, conds, a0, k)
        if kind == "ReturnStmt":
            a0 = added or (bool(kids(s)) and self.expr_adds(kids(s)[0]))
            self.ends.append((conds, a0, "return"))
            return
        if kind == "CXXTryStmt":
            return self.stmt(kids(s)[0], conds, added, k)
        if kind in ("BreakStmt", "ContinueStmt"):
            return k(conds, added)
        if any(x["k"] == "CXXThrowExpr" for x in walk(s)) and kind in ("CXXThrowExpr", "ExprWithCleanups", "CallExpr", "CXXMemberCallExpr"):
            th = [x for x in walk(s) if x["k"] == "CXXThrowExpr"]
            if th and (kind == "CXXThrowExpr" or strip(kids(s)[0] if kids(s) else s)["k"] == "CXXThrowExpr"):
                self.ends.append((conds, True, "throw"))
                return
        if kind == "SwitchStmt":
            secs = switch_sections(s)
            for lab, sec in secs.items():
                self.stmt({"k": "CompoundStmt", "c": [x for x in sec if x["k"] != "BreakStmt"], "i": -1}, conds + [("case %s" % lab, True)], added, k)
            return
        return k(conds, added or self.expr_adds(s))


# paths on which a conversion legitimately adds nothing: (function regex, predicate over path atoms, reason)
def _has(conds, *want):
    d = {}
    for t, p in conds:
        d.setdefault(t, p)
    return all(d.get(t) is p for t, p in want)


P2_EXCEPTIONS = [
    (r"CondEQConverter_MIP<.*>::ConvertCtxPos", lambda c: _has(c, ("con.empty()", True), ("fabs(con.rhs())!=0", False)),
     "empty body and rhs 0: the equality is identically true, result==1 implies nothing"),
    (r"CondEQConverter_MIP<.*>::ConvertCtxPos", lambda c: _has(c, ("GetMC().is_fixed(res)", True), ("GetMC().fixed_value(res)", False)),
     "result fixed to 0: the positive direction (result==1 => ...) is vacuous"),
    (r"CondEQConverter_MIP<.*>::ConvertCtxNeg", lambda c: _has(c, ("con.empty()", True), ("fabs(con.rhs())==0", False)),
     "empty body and rhs != 0: the equality is identically false, result==0 => not(equality) is vacuous"),
    (r"CondEQConverter_MIP<.*>::ConvertCtxNeg", lambda c: _has(c, ("con.empty()", False), ("!GetMC().is_fixed(res)||!GetMC().fixed_value(res)", False)) or
        _has(c, ("con.empty()", False), ("GetMC().is_fixed(res)", True), ("GetMC().fixed_value(res)", True)),
     "result fixed to 1: the negative direction (result==0 => ...) is vacuous"),
    (r"CondEQConverter_MIP<.*>::Convert$", lambda c: any(t.startswith("1<args.size()") and not p for t, p in c) and any("IfMightUseEqualityEncodingForVar" in t and not p for t, p in c) or
        any("IfMightUseEqualityEncodingForVar" in t for t, p in c),
     "single-variable equality on a variable with unary encoding: the flags and their linking constraints are created by the encoding (ConvertEqVarConstMaps)"),
    (r"Cond_LE_LT_GT_GE_Converter_MIP<.*>::ConvertCondIneq", lambda c: _has(c, ("con.empty()", True)) and any(">0" in t and not p for t, p in c),
     "empty body and the constant comparison holds: nothing to enforce"),
    (r"Cond_LE_LT_GT_GE_Converter_MIP<.*>::ConvertCondIneq", lambda c: _has(c, ("con.empty()", False), ("GetMC().is_fixed(res)", True), ("value==GetMC().fixed_value(res)", False)),
     "result fixed to the other value: this direction is vacuous"),
    (r"IndicatorLin(LE|GE)Converter_MIP<.*>::ConvertImplication(LE|GE)", lambda c: any(re.fullmatch(r"body_[ul]b!=con\.rhs\(\)", t) and not p for t, p in c),
     "the bound of the body equals the right-hand side: the inequality holds for every point of the domain"),
]
P2_EXCEPTIONS += [
    (r"BasicFuncConstrCvt<.*>::Convert<", lambda c: (any("HasNegative()" in t and not p for t, p in c) or any(".lb(" in t and "<" in t and not p for t, p in c)) and
        (any("HasPositive()" in t and not p for t, p in c) or any(".ub(" in t and (">" in t or "<" in t) and not p for t, p in c)),
     "neither direction needed: the context lacks it or the bound of the result already implies it (C01.D1 checks the guards)"),
    (r"RangeConstraintConverter<.*>::ConvertWithRhs", lambda c: _entails(c, {"rr[1]": False, "rr[2]": False}),
     "both bounds infinite: the range constraint is free"),
]


def _entails(conds, want):
    """the path conditions, read as a boolean function of their atoms, hold only where the atoms in `want` have the given values"""
    import itertools
    fms = []
    for t, p in conds:
        if t not in AddPaths.reg:
            return False
        x = bool_formula(AddPaths.reg[t][0], AddPaths.reg[t][1])
        fms.append(x if p else ("not", x))
    atoms = sorted(set().union(*[bf_atoms(x) for x in fms])) if fms else []
    if len(atoms) > 12 or not all(a in atoms for a in want):
        return False
    for bits in itertools.product((False, True), repeat=len(atoms)):
        a = dict(zip(atoms, bits))
        if all(bf_eval(x, a) for x in fms) and any(a[k] is not v for k, v in want.items()):
            return False
    return True


def rule_P2(rep, funcs):
    p2 = rep.rule("C01.P2", "PATH", "every normally ending path of an installed conversion adds to the model, except where its conditions say that nothing is needed", floor=60)
    byfull = {}
    for f in funcs:
        byfull.setdefault(f.full, f)
    memo = {}
    used_exc = set()

    def excepted(f, conds):
        for i, (pat, pred, why) in enumerate(P2_EXCEPTIONS):
            if re.search(pat, f.full) and pred(conds):
                used_exc.add(i)
                return why
        return None

    def const_return(g):
        """constant returned by every return statement of g (None if not constant)"""
        vals = set()
        for r in g.walk():
            if r["k"] == "ReturnStmt":
                vals.add(cv(kids(r)[0]) if kids(r) else "void")
        if len(vals) == 1 and None not in vals and "void" not in vals:
            return vals.pop()
        return None

    class AP(AddPaths):
        def atoms(self, c, pol):
            return AddPaths.atoms(self, c, pol)

        def stmt(self, s, conds, added, k):
            if s is not None and s["k"] == "IfStmt":
                real = [x for x in s.get("c", []) if x is not None]
                c0 = strip(real[0])
                if c0["k"] == "CXXMemberCallExpr" and byfull.get(c0.get("calleeFull") or "") is not None:
                    val = const_return(byfull[c0["calleeFull"]])
                    if val is not None:
                        br = real[1] if val else (real[2] if len(real) > 2 else None)
                        return AddPaths.stmt(self, br, conds, added or self.expr_adds(c0), k)
            return AddPaths.stmt(self, s, conds, added, k)

    def bad_paths(f):
        if f.full in memo:
            return memo[f.full]
        memo[f.full] = []

        def is_add(x):
            nm = (x.get("callee") or "").split("::")[-1]
            if nm in ADDERS:
                return True
            g = byfull.get(x.get("calleeFull") or "")
            if g is not None and g is not f and re.search(r"(Converter|Cvt)", g.qn):
                return not bad_paths(g)
            return False
        ends = AP(f, is_add).run()
        bad = [(c, h) for c, a, h in ends if not a and not excepted(f, c)]
        memo[f.full] = bad
        return bad
    n = 0
    for f in sorted(funcs, key=lambda g: g.full):
        if not re.search(r"::(Convert|ConvertCtxPos|ConvertCtxNeg)$", f.qn):
            continue
        if f.qn.startswith(("mp::FlatConverter", "mp::MIPFlatConverter", "mp::ProblemFlattener", "mp::ExprConverter")):
            continue
        if f.qn.startswith("mp::BasicFuncConstrCvt::ConvertCtx"):
            continue          # the 'not implemented' stubs raise (a diagnostic)
        n += 1
        bad = bad_paths(f)
        cls = f.qn.split("::")[1]
        m = re.search(r"([A-Za-z_0-9]+)ConstraintId", f.full)
        t = m.group(1) if m else re.sub(r"mp::|std::", "", (f.params[0].get("ct") if f.params else "") or "")[:60]
        key = "%s::%s|%s" % (cls, f.name, t)
        if len([1 for g in funcs if g.qn == f.qn]) > 1:
            key += "|" + hashlib.md5(f.full.encode()).hexdigest()[:6]
        p2.check(not bad, key, short_loc(f.loc), "%s::%s adds to the model on every normally ending path (exceptions: conditions that make the relation vacuous)" % (cls, f.name),
                 "%s::%s can return without adding anything on the path [%s]: the converted constraint is marked as reformulated and its relation disappears from the delivered model" %
                 (cls, f.name, ", ".join(("" if p else "not ") + t for t, p in (bad[0][0] if bad else []))))
    if n < 40:
        raise AnalysisBroken("C01.P2: only %d conversion entry points" % n)
    rep.extra["p2_exceptions_used"] = sorted(P2_EXCEPTIONS[i][2] for i in used_exc)


# ---------------------------------------------------------------------------------------------------
# R1 shared conditional sub-expressions created/reused by converters get the context their new use needs
# ---------------------------------------------------------------------------------------------------
R1_EXCEPTIONS = {
    "CountConverter_MIP::Convert": "only reached for non-binary arguments; the NL count operator takes logical arguments, whose results are binary variables",
}


def rule_R1(rep, funcs):
    r1 = rep.rule("C01.R1", "WHO", "a converter that uses the result of a (possibly shared) conditional comparison in a constraint it adds propagates the context that use needs", floor=8)
    PROP = ("FixAsTrue", "PropagateResultOfInitExpr", "PropagateResult2Vars")
    n = 0
    for f in sorted(funcs, key=lambda g: g.full):
        cls0 = f.qn.split("::")[1] if f.qn.count("::") >= 2 else ""
        if not re.search(r"Converter(_MIP)?(_CRTP)?$", cls0) or cls0 in ("FlatConverter", "MIPFlatConverter", "ExprConverter", "BasicFlatConverter"):
            continue
        calls = [c for c in f.walk() if c["k"] == "CXXMemberCallExpr" and (c.get("callee") or "").split("::")[-1] in ("AssignResultVar2Args", "AssignResult2Args")]
        ordinal = {}
        if not calls:
            continue
        parent = f.parent

        def holder(c):
            """the local variable / array the value of call c ends in, or the enclosing call that consumes it"""
            p = parent.get(c["i"])
            while p is not None and p["k"] in ("ImplicitCastExpr", "ExprWithCleanups", "MaterializeTemporaryExpr", "CXXBindTemporaryExpr", "ParenExpr", "CXXFunctionalCastExpr",
                                               "CStyleCastExpr", "CXXStaticCastExpr", "InitListExpr", "CXXConstructExpr", "CXXTemporaryObjectExpr", "CXXStdInitializerListExpr"):
                if p["k"] in ("CXXConstructExpr", "CXXTemporaryObjectExpr", "InitListExpr", "CXXStdInitializerListExpr"):
                    # argument of a constraint constructor: find the AssignResult call that takes that constraint
                    q = p
                    while q is not None and not (q["k"] == "CXXMemberCallExpr" and (q.get("callee") or "").split("::")[-1] in ("AssignResultVar2Args", "AssignResult2Args", "AddConstraint") + PROP):
                        q = parent.get(q["i"])
                    if q is not None:
                        return ("call", q)
                p = parent.get(p["i"])
            if p is None:
                return ("none", None)
            if p["k"] == "VarDecl":
                return ("var", p)
            if p["k"] == "BinaryOperator" and p.get("op") == "=":
                lhs = strip(kids(p)[0])
                base = lhs
                while base["k"] in ("ArraySubscriptExpr", "CXXOperatorCallExpr") and kids(base):
                    base = strip(call_args(base)[0] if base["k"] == "CXXOperatorCallExpr" else kids(base)[0])
                return ("array" if base is not lhs else "var", base)
            if p["k"] == "CXXOperatorCallExpr" and p.get("op") == "=":
                lhs = strip(call_args(p)[0])
                base = lhs
                while base["k"] in ("ArraySubscriptExpr", "CXXOperatorCallExpr") and kids(base):
                    base = strip(call_args(base)[0] if base["k"] == "CXXOperatorCallExpr" else kids(base)[0])
                return ("array" if base is not lhs else "var", base)
            if p["k"] == "CXXMemberCallExpr":
                return ("call", p)
            return ("other", p)

        def propagated(c, depth=0):
            if depth > 6:
                return False
            kind, h = holder(c)
            if kind == "call":
                nm = (h.get("callee") or "").split("::")[-1]
                if nm in PROP:
                    return True
                if nm in ("AssignResultVar2Args", "AssignResult2Args"):
                    return propagated(h, depth + 1)
                return False
            if kind in ("var", "array"):
                did = h.get("declId")
                for u in f.walk():
                    if u["k"] == "DeclRefExpr" and u.get("declId") == did:
                        q = parent.get(u["i"])
                        while q is not None and q["k"] not in ("CXXMemberCallExpr", "CompoundStmt", "DeclStmt", "VarDecl"):
                            q = parent.get(q["i"])
                        if q is not None and q["k"] == "CXXMemberCallExpr":
                            nm = (q.get("callee") or "").split("::")[-1]
                            if nm in PROP:
                                return True
                            if nm in ("AssignResultVar2Args", "AssignResult2Args") and q is not c and propagated(q, depth + 1):
                                return True
                        # constraint constructor argument of an outer AssignResult call
                        q2 = parent.get(u["i"])
                        while q2 is not None and q2["k"] != "CompoundStmt":
                            if q2["k"] == "CXXMemberCallExpr" and (q2.get("callee") or "").split("::")[-1] in ("AssignResultVar2Args", "AssignResult2Args") and q2 is not c:
                                if propagated(q2, depth + 1):
                                    return True
                            q2 = parent.get(q2["i"])
                return False
            return False
        for c in calls:
            t = c.get("calleeFull") or ""
            m = re.search(r"AssignResult(?:Var)?2Args<(.*)>$", t)
            ty = m.group(1) if m else t
            if "ConditionalConstraint<" not in ty:
                continue
            n += 1
            cls = f.qn.split("::")[1]
            key = "%s::%s|%s" % (cls, f.name, re.sub(r"mp::|std::", "", ty)[:70])
            inst = "Quad" if re.search(r"Converter_MIP<[^>]*QuadAndLinTerms", f.full.split("::" + f.name)[0]) else ""
            ordinal[key] = ordinal.get(key, 0) + 1
            key += "|%s#%d" % (inst, ordinal[key])
            site = "%s::%s" % (cls, f.name)
            if site in R1_EXCEPTIONS:
                r1.ok(key, short_loc(c.get("l")), "exception: " + R1_EXCEPTIONS[site])
                continue
            r1.check(propagated(c), key, short_loc(c.get("l")), "%s: the comparison flag is given its context (FixAsTrue / PropagateResultOfInitExpr, directly or through the enclosing expression)" % site,
                     "%s places the result of a conditional comparison obtained from AssignResult(Var)2Args into a constraint it adds without propagating context: "
                     "when the comparison already exists in the model with a one-sided context (e.g. it occurs in a disjunction), only that side of  flag <=> comparison  is generated "
                     "and the added constraint no longer forces the flag" % site)
    if n < 8:
        raise AnalysisBroken("C01.R1: only %d sub-expression sites" % n)


# ---------------------------------------------------------------------------------------------------
# H1 sub-expression maps: equality compares everything that distinguishes two constraints
# ---------------------------------------------------------------------------------------------------
H1_REQUIRED = {
    "op==CustomFunctionalConstraint": {"GetArguments", "GetParameters"},
    "op==ConditionalConstraint": {"GetConstraint"},
    "op==LinearFunctionalConstraint": {"GetAffineExpr"},
    "op==QuadraticFunctionalConstraint": {"GetQuadExpr"},
    "mp::ConditionalConstraint::operator==": {"GetConstraint"},
    "mp::AlgebraicConstraint::operator==": {"Body::equals", "RhsOrRange::equals"},
    "mp::AlgConRhs::equals": {"rhs"},
    "mp::AlgConRange::equals": {"lb", "ub"},
    "mp::LinTerms::equals": {"coefs_", "vars_"},
    "mp::QuadTerms::operator==": {"coefs_", "vars1_", "vars2_"},
    "mp::QuadAndLinTerms::equals": {"LinTerms::equals", "QuadTerms::equals"},
    "mp::AlgebraicExpression::operator==": {"GetBody", "constant_term"},
}


def rule_H1(rep, repo):
    h1 = rep.rule("C01.H1", "TABLE", "the equality used by the sub-expression maps is a conjunction comparing every distinguishing part of two constraints on both operands", floor=40)
    d = export(U, rec=[r"mp::(LinTerms|QuadTerms|AlgConRhs|AlgConRange|AlgebraicExpression)"],
               fn=[r"mp::operator==", r"mp::(LinTerms|QuadTerms|QuadAndLinTerms|AlgConRhs|AlgConRange|AlgebraicExpression|AlgebraicConstraint|ConditionalConstraint)::(equals|operator==)"], repo=repo)
    F = Facts([d])
    funcs = [f for f in F.funcs if not f.is_dependent() and f.body is not None]
    recs = {}
    for r in d.get("records", []):
        if not r.get("full", "").startswith("mp::") and "<" in r.get("full", ""):
            continue
        recs.setdefault(r["qn"], set()).update(x["name"] for x in r.get("fields", []))
    # field-level reference from the class declarations
    fieldref = {"mp::LinTerms::equals": recs.get("mp::LinTerms"), "mp::QuadTerms::operator==": recs.get("mp::QuadTerms")}
    for qn, fs in fieldref.items():
        if not fs or fs != H1_REQUIRED[qn]:
            raise AnalysisBroken("C01.H1: data members of %s are %s, the reference table says %s" % (qn, fs, H1_REQUIRED[qn]))
    n = 0
    for f in sorted(funcs, key=lambda g: g.full):
        if f.qn == "mp::operator==":
            t = (f.params[0].get("ct") or "") if f.params else ""
            m = re.search(r"reference_wrapper<const mp::([A-Za-z]+)", t)
            if not m:
                continue
            cls = m.group(1)
            ref = H1_REQUIRED.get("op==" + cls)
            mid = re.search(r"mp::([A-Za-z_0-9]+)ConstraintId", t)
            label = "operator==(%s%s)" % (cls, ("<" + mid.group(1) + ">") if mid else ("<" + re.sub(r"mp::|std::", "", t.split("ConditionalConstraint<")[-1])[:50] if cls == "ConditionalConstraint" else ""))
        else:
            ref = H1_REQUIRED.get(f.qn)
            label = re.sub(r"mp::", "", f.full)[:90]
        if ref is None:
            continue
        n += 1
        rets = [r for r in f.walk() if r["k"] == "ReturnStmt"]
        if len(rets) != 1:
            h1.fail(label, short_loc(f.loc), "%s is not a single return expression" % label)
            continue
        conj = []

        def flat(e):
            e = strip(e)
            while e["k"] in ("ExprWithCleanups", "ParenExpr"):
                e = strip(kids(e)[0])
            if e["k"] == "BinaryOperator" and e.get("op") == "&&":
                flat(kids(e)[0]); flat(kids(e)[1])
            else:
                conj.append(e)
        flat(kids(rets[0])[0])
        pn = [p["name"] for p in f.params]
        labels = set()
        ok = True
        why = ""
        for c in conj:
            if c["k"] in ("BinaryOperator", "CXXOperatorCallExpr") and c.get("op") == "==":
                a, b = (kids(c) if c["k"] == "BinaryOperator" else call_args(c))
                ta, tb = nt(render(a)), nt(render(b))
                refs_a = sorted({p for p in pn if re.search(r"(?<![A-Za-z_0-9])%s(?![A-Za-z_0-9])" % re.escape(p), ta)})
                refs_b = sorted({p for p in pn if re.search(r"(?<![A-Za-z_0-9])%s(?![A-Za-z_0-9])" % re.escape(p), tb)})
                if refs_a == refs_b and ta != "*this":
                    ok = False
                    why = "compares %s with %s (the same operand on both sides)" % (ta, tb)
                # normalise the operand names
                for i, p in enumerate(pn):
                    ta = re.sub(r"(?<![A-Za-z_0-9])%s(\.get\(\))?\." % re.escape(p), "@.", ta)
                    tb = re.sub(r"(?<![A-Za-z_0-9])%s(\.get\(\))?\." % re.escape(p), "@.", tb)
                ta2 = ta if ta.startswith("@.") else "@." + ta
                tb2 = tb if tb.startswith("@.") else "@." + tb
                if ta == "*this":
                    labels.add("*this")
                    continue
                if ta2 != tb2:
                    ok = False
                    why = "compares %s with %s" % (ta, tb)
                labels.add(re.sub(r"\(\)$", "", ta2[2:]))
            elif c["k"] == "CXXMemberCallExpr" and (c.get("callee") or "").split("::")[-1] == "equals":
                cal = c["callee"]
                cls2 = cal.split("::")[-2]
                base = {"LinTerms": "LinTerms::equals", "QuadTerms": "QuadTerms::equals", "QuadAndLinTerms": "Body::equals", "AlgConRhs": "RhsOrRange::equals", "AlgConRange": "RhsOrRange::equals"}.get(cls2, cls2 + "::equals")
                if f.qn == "mp::AlgebraicConstraint::operator==" and cls2 == "LinTerms":
                    base = "Body::equals"
                labels.add(base)
            else:
                ok = False
                why = "conjunct %s is not a comparison" % render(c)[:60]
        missing = ref - labels
        h1.check(ok and not missing, label, short_loc(f.loc), "%s compares %s" % (label, sorted(ref)),
                 "%s %s: two constraints that differ there share one result variable, i.e. one of them is replaced by the other in the delivered model" %
                 (label, ("does not compare " + ", ".join(sorted(missing))) if missing else why))
    if n < 40:
        raise AnalysisBroken("C01.H1: only %d equality functions" % n)


def rule_H2(rep, repo):
    h2 = rep.rule("C01.H2", "FLOW", "the (variable, constant) key of single-variable equality comparisons is taken after the coefficient is normalised to 1", floor=4)
    d = export(U, fn=[r"mp::ConstraintPreprocessors::(PreprocessConstraint|PreprocessEqVarConst__unifyCoef)", r"mp::MIPFlatConverter::(IsVarConstCmp|MapFind|MapInsert)", r"mp::BasicFCC::Convert"], repo=repo)
    F = Facts([d])
    funcs = [f for f in F.funcs if not f.is_dependent() and f.cfg is not None]
    pp = [f for f in funcs if f.qn == "mp::ConstraintPreprocessors::PreprocessConstraint" and f.params and re.search(r"ConditionalConstraint<mp::AlgebraicConstraint<mp::LinTerms, mp::AlgConRhs<0>>>", f.params[0].get("ct") or "")]
    if len(pp) != 1:
        raise AnalysisBroken("C01.H2: PreprocessConstraint(CondLinConEQ&): %d instantiations" % len(pp))
    f = pp[0]
    uc = [c for c in f.walk() if c["k"] in ("CallExpr", "CXXMemberCallExpr") and (c.get("callee") or "").endswith("::PreprocessEqVarConst__unifyCoef")]
    ok = len(uc) == 1
    if ok:
        # every return that skips the normalisation is taken because the result is already decided
        w = f.cfg.path_avoiding(None, "exit", [uc[0]["i"]], from_entry=True)
        rets_before = [r for r in f.walk() if r["k"] == "ReturnStmt" and f.cfg.position(r) is not None and not f.cfg.before(uc[0], r)]
        okr = True
        for r in rets_before:
            fa = dict(nfacts(f, r))
            okr = okr and (fa.get("CheckEmptySubCon(c,prepro)") is True or fa.get("FixEqualityResult(c,prepro)") is True)
        ok = okr and len(rets_before) == 2
    h2.check(ok, "normalise-before-map", short_loc(f.loc), "PreprocessConstraint(CondLinConEQ) normalises coef*var == const unless the result is already decided",
             "a single-variable equality can reach the (variable, constant) map with a coefficient other than 1: 2*x == 6 and x == 6 share one flag")
    u = [g for g in funcs if g.qn == "mp::ConstraintPreprocessors::PreprocessEqVarConst__unifyCoef"]
    if not u and ok:
        raise AnalysisBroken("C01.H2: unifyCoef not found")
    g = u[0] if u else f
    sr = [c for c in g.walk() if c["k"] == "CXXMemberCallExpr" and (c.get("callee") or "").endswith("::set_rhs")]
    sc = [c for c in g.walk() if c["k"] == "CXXMemberCallExpr" and (c.get("callee") or "").endswith("::set_coef")]
    ok = len(sr) == 1 and len(sc) == 1
    if ok:
        a = strip(call_args(sr[0])[0])
        ok = a["k"] == "BinaryOperator" and a.get("op") == "/" and nt(render(kids(a)[0])) == "con.rhs()" and nt(render(kids(a)[1])) == "coef" and \
            [nt(render(x)) for x in call_args(sc[0])] in (["0", "1"], ["0", "1.0"]) and \
            (("1==body.size()", True) in nfacts(g, sr[0]) or
             any(pol and t_.startswith("1==") and (t_.endswith("body.size()") or t_.endswith("GetBody().size()")) for t_, pol in _norm_facts(g, sr[0], canon=True)))
        inits = {v["name"]: nt(render(kids(v)[0])) for v in g.walk() if v["k"] == "VarDecl" and kids(v)}
        cv_ = [v for v in g.walk() if v["k"] == "VarDecl" and v.get("name") == "coef"]
        ok = ok and inits.get("coef") == "body.coef(0)" and len(cv_) == 1 and "&" not in (cv_[0].get("ct") or "")
    h2.check(ok, "unify-coef", short_loc(g.loc), "coef*var == rhs becomes var == rhs/coef (coef is a copy taken before the reset)")
    iv = [g for g in funcs if g.qn == "mp::MIPFlatConverter::IsVarConstCmp"]
    if not iv:
        raise AnalysisBroken("C01.H2: IsVarConstCmp not found")
    g = iv[0]
    r = [x for x in g.walk() if x["k"] == "ReturnStmt"]
    txt = [nt(render(kids(x)[0])) for x in r]
    okk = any("linEQ.var(0)" in t and "linEQ.rhs()" in t for t in txt) and any(("1==linEQ.size()", True) in nfacts(g, x) for x in r if "linEQ.var(0)" in render(x))
    h2.check(okk, "key", short_loc(g.loc), "the key is (var(0), rhs()) of a one-term body")
    mf = [g for g in funcs if g.qn in ("mp::MIPFlatConverter::MapFind", "mp::MIPFlatConverter::MapInsert") and g.params and "AlgConRhs<0>" in (g.params[0].get("ct") or "") and "LinTerms" in (g.params[0].get("ct") or "")]
    for g in mf:
        calls = [c for c in g.walk() if c["k"] in ("CallExpr", "CXXMemberCallExpr") and (c.get("callee") or "").endswith("VarConstCmp") and "IsVarConstCmp" not in c.get("callee")]
        gen = [c for c in g.walk() if c["k"] in ("CallExpr", "CXXMemberCallExpr") and (c.get("callee") or "").endswith("__Impl")]
        ok = len(calls) == 1 and len(gen) == 1 and ("isVCC.first", True) in nfacts(g, calls[0]) and ("isVCC.first", False) in nfacts(g, gen[0]) and \
            [nt(render(a)) for a in call_args(calls[0])][:2] == ["isVCC.second.first", "isVCC.second.second"]
        h2.check(ok, "dispatch|" + g.name, short_loc(g.loc), "%s: var==const comparisons use the (var, const) map, all others the structural map" % g.name)


def rule_K2(rep, repo, rid="C01.K2"):
    k2 = rep.rule(rid, "TABLE", "fractional right-hand sides of comparisons with an integer body are rounded in the direction that keeps the integer solutions; de-normalised comparisons are negated with the sense reversed", floor=12)
    d = export(U, fn=[r"mp::ConstraintPreprocessors::PreprocessConstraint"], repo=repo)
    F = Facts([d])
    funcs = [f for f in F.funcs if not f.is_dependent() and f.cfg is not None]
    WANT = {1: "ceil", -1: "floor", 2: "floor", -2: "ceil"}      # x >= 2.5 <=> x >= 3;  x <= 2.5 <=> x <= 2;  x > 2.5 <=> x > 2;  x < 2.5 <=> x < 3
    n = 0
    for f in sorted(funcs, key=lambda g: g.full):
        t = (f.params[0].get("ct") or "") if f.params else ""
        m = re.search(r"ConditionalConstraint<mp::AlgebraicConstraint<mp::(LinTerms|QuadAndLinTerms), mp::AlgConRhs<(-?[12])>>>", t)
        if not m:
            continue
        body, kind = m.group(1), int(m.group(2))
        n += 1
        live = []
        for c in f.walk():
            if c["k"] == "CXXMemberCallExpr" and (c.get("callee") or "").endswith("::set_rhs"):
                ok = True
                guards = []
                for cid, pol in f.cfg.facts_at(c):
                    cn = f.nodes[cid]
                    v = cv(cn)
                    if isinstance(pol, tuple):
                        continue                     # membership in a switch section: decided below
                    if v is not None:
                        if bool(v) != pol:
                            ok = False
                    else:
                        guards.append((nt(render(cn)), pol))
                # a switch over the (constant) kind: only the selected section is live
                sw_ = next((a_ for a_ in f.ancestors(c) if a_["k"] == "SwitchStmt"), None)
                if ok and sw_ is not None:
                    sv_ = cv([x for x in sw_["c"] if x is not None][0])
                    if sv_ is not None:
                        secs_ = switch_sections(sw_)
                        sel_ = secs_.get(sv_, secs_.get("default", []))
                        ok = any(any(x["i"] == c["i"] for x in walk(st_)) for st_ in sel_)
                if ok and f.cfg.position(c) is not None:
                    live.append((c, guards))
        key = "round|%s|kind %d" % (body, kind)
        if len(live) != 1:
            k2.fail(key, short_loc(f.loc), "kind %d: %d live set_rhs calls" % (kind, len(live)))
            continue
        c, guards = live[0]
        a = strip(call_args(c)[0])
        fn = (a.get("callee") or "").split("::")[-1] if a["k"] == "CallExpr" else "?"
        arg_ok = a["k"] == "CallExpr" and nt(render(call_args(a)[0])) == "rhs"
        inits = {v["name"]: nt(render(kids(v)[0])) for v in f.walk() if v["k"] == "VarDecl" and kids(v)}
        gl = nfacts(f, c)
        g_ok = any("INTEGER" in t_ and "get_result_type()" in t_ and p for t_, p in gl) and any(t_ in ("floor(rhs)!=ceil(rhs)", "ceil(rhs)!=floor(rhs)") and p for t_, p in gl) and \
            inits.get("rhs") == "algc.rhs()" and "ComputeBoundsAndType(algc.GetBody())" in inits.get("bnt_body", "") and nt(render(call_object(c))) == "algc"
        k2.check(fn == WANT[kind] and arg_ok and g_ok, key, short_loc(c.get("l")),
                 "kind %d (%s): fractional rhs replaced by %s(rhs) when the body is integer valued" % (kind, {-2: "<", -1: "<=", 1: ">=", 2: ">"}[kind], WANT[kind]),
                 "kind %d (%s): a fractional rhs is replaced by %s(rhs)%s; the integer solutions of the comparison are those of %s(rhs)" %
                 (kind, {-2: "<", -1: "<=", 1: ">=", 2: ">"}[kind], fn, "" if g_ok else " (guards: %s)" % gl, WANT[kind]))
        # de-normalised: negate and reverse the sense
        ar = [x for x in f.walk() if x["k"] == "CXXMemberCallExpr" and (x.get("callee") or "").split("::")[-1] == "AssignResultVar2Args"]
        okn = len(ar) == 1 and ("AlgConRhs<%d>" % (-kind)) in (ar[0].get("calleeFull") or "")
        if okn:
            ng = [x for x in f.walk() if x["k"] == "CXXMemberCallExpr" and (x.get("callee") or "").endswith("::negate") and nt(render(call_object(x))) == "arg1"]
            okn = len(ng) == 1 and f.cfg.before(ng[0], ar[0]) and inits.get("arg1") == "algc" and ("IsNormalized(cc)", False) in nfacts(f, ar[0]) and \
                "arg1.GetBody()" in nt(render(ar[0])) and "arg1.rhs()" in nt(render(ar[0]))
        k2.check(okn, "negate|%s|kind %d" % (body, kind), short_loc(f.loc), "a comparison with a negative leading coefficient is replaced by the negated body with sense %d" % -kind)
    if n < 8:
        raise AnalysisBroken("C01.K2: only %d conditional comparison preprocessors" % n)


# ---------------------------------------------------------------------------------------------------
# L1 linearisation forms of the simple converters (abstract interpretation, mpsa/conlit.py)
# ---------------------------------------------------------------------------------------------------
L1_FUNCS = [
    (r"mp::AndConverter_MIP::ConvertCtx(Pos|Neg)", None), (r"mp::OrConverter_MIP::ConvertCtx(Pos|Neg)", None), (r"mp::AbsConverter_MIP::ConvertCtx(Pos|Neg)", None),
    (r"mp::MinOrMaxConverter_MIP::ConvertCtx(Pos|Neg)", r"(Min|Max)ConstraintId"), (r"mp::NotConverter_MIP::Convert", None), (r"mp::IfThenElseConverter_MIP::Convert", None),
    (r"mp::DivConverter_MIP::Convert", None), (r"mp::NumberofConstConverter_MIP::Convert", None), (r"mp::NumberofVarConverter_MIP::Convert", None),
    (r"mp::CountConverter_MIP::Convert", None), (r"mp::AllDiffConverter_MIP::ConvertCtxPos", None), (r"mp::RangeConstraintConverter::Convert", r"(LinTerms|QuadAndLinTerms)>::Convert"),
    (r"mp::ImplicationConverter_MIP::Convert", None), (r"mp::ComplementarityConverter_MIP::Convert", r"(LinTerms|QuadAndLinTerms)>>>::Convert"),
    (r"mp::IndicatorQuadConverter_MIP::Convert", r", (-?[01])>::Convert"),
]


def bool_formula(f, n, clean=lambda t: t, depth=0):
    """boolean structure of a condition: ("not", x) / ("and", x, y) / ("or", x, y) / ("atom", text); bool locals with a stable
    initialiser are looked through; `>` and `>=` atoms are written as `<` and `<=` (operands swapped, exact also for NaN)"""
    from ..cfg import _stable_local_inits
    n = strip(n)
    if n["k"] == "UnaryOperator" and n.get("op") == "!":
        return ("not", bool_formula(f, kids(n)[0], clean, depth))
    if n["k"] == "BinaryOperator" and n.get("op") in ("&&", "||"):
        return ("and" if n["op"] == "&&" else "or", bool_formula(f, kids(n)[0], clean, depth), bool_formula(f, kids(n)[1], clean, depth))
    if n["k"] == "DeclRefExpr" and n.get("dk") == "Var" and depth < 6 and "bool" in (n.get("ct") or n.get("t") or "bool"):
        ini = _stable_local_inits(f, True).get(n.get("declId"))
        if ini is not None and strip(ini)["k"] != "InitListExpr":
            return bool_formula(f, ini, clean, depth + 1)
    if n["k"] == "BinaryOperator" and n.get("op") in (">", ">="):
        a, b = kids(n)
        return ("atom", "%s%s%s" % (clean(nt(render(b))), "<" if n["op"] == ">" else "<=", clean(nt(render(a)))))
    if n["k"] == "BinaryOperator" and n.get("op") in ("==", "!="):
        a, b = sorted([clean(nt(render(kids(n)[0]))), clean(nt(render(kids(n)[1])))])
        x = ("atom", "%s==%s" % (a, b))
        return x if n["op"] == "==" else ("not", x)
    return ("atom", clean(nt(render(n))))


def bf_atoms(fm, acc=None):
    acc = set() if acc is None else acc
    if fm[0] == "atom":
        acc.add(fm[1])
    else:
        for x in fm[1:]:
            bf_atoms(x, acc)
    return acc


def bf_eval(fm, a):
    if fm[0] == "atom":
        return a[fm[1]]
    if fm[0] == "not":
        return not bf_eval(fm[1], a)
    if fm[0] == "and":
        return bf_eval(fm[1], a) and bf_eval(fm[2], a)
    return bf_eval(fm[1], a) or bf_eval(fm[2], a)


def bf_canon(fms):
    """canonical text of a disjunction of formulas: the minterms over the atoms it really depends on"""
    import itertools
    atoms = sorted(set().union(*[bf_atoms(x) for x in fms])) if fms else []
    if len(atoms) > 12:
        raise AnalysisBroken("C01: path condition over %d atoms" % len(atoms))
    sat = set()
    for bits in itertools.product((False, True), repeat=len(atoms)):
        a = dict(zip(atoms, bits))
        if any(bf_eval(x, a) for x in fms):
            sat.add(bits)
    keep = []
    for i in range(len(atoms)):
        if any((b[:i] + (not b[i],) + b[i + 1:]) not in sat for b in sat):
            keep.append(i)
    rows = sorted({tuple(b[i] for i in keep) for b in sat})
    if not sat:
        return "never"
    if not keep:
        return ""
    return " | ".join(" & ".join(("" if v else "!") + "(" + atoms[i] + ")" for i, v in zip(keep, r)) for r in rows)


def l1_forms(funcs):
    from ..conlit import Interp, Unsupported
    byfull = {}
    for f in funcs:
        byfull.setdefault(f.full, f)
    out = {}
    for f in sorted(funcs, key=lambda g: g.full):
        for pat, inst in L1_FUNCS:
            if not re.fullmatch(pat, f.qn):
                continue
            tag = ""
            if inst:
                m = re.search(inst, f.full)
                if not m:
                    continue
                tag = "<" + m.group(1) + ">"
            key = f.qn.replace("mp::", "") + tag
            try:
                em = Interp(f, byfull).run()
            except Unsupported as u:
                out[key] = (f, None, str(u))
                continue
            # the same descriptor reached on several paths counts once, under the disjunction of the path conditions; the
            # conditions are compared as boolean functions of their atoms, not as written
            clean_ = lambda t: t.replace("this->", "").replace("GetMC().", "")
            grp = {}
            for conds, each, dsc in em:
                fm = ("atom", "true")
                parts = []
                for t, p in conds:
                    cf_, cn_ = Interp.cond_reg[t]
                    x = bool_formula(cf_, cn_, clean_)
                    parts.append(x if p else ("not", x))
                grp.setdefault(("EACH " if each else "", canon_form(dsc)), []).append(parts)
            forms = []
            for (ea, ds), alts in grp.items():
                fms = []
                for parts in alts:
                    fm = None
                    for x in parts:
                        fm = x if fm is None else ("and", fm, x)
                    fms.append(fm)
                ct = "" if any(x is None for x in fms) else bf_canon(fms)
                forms.append("%s[%s] %s" % (ea, ct, ds))
            out[key] = (f, sorted(forms), None)
    rel = [g for g in funcs if g.qn == "mp::RangeConstraintConverter::Relate"]
    for g in rel[:1]:
        r = [x for x in g.walk() if x["k"] == "ReturnStmt"]
        out["RangeConstraintConverter::Relate"] = (g, [nt(render(kids(r[0])[0])) if len(r) == 1 else "?"], None)
    return out


def canon_form(d):
    """printable canonical form of a descriptor: terms of fully literal linear bodies are sorted by variable"""
    if isinstance(d, tuple) and d and d[0] == "lin" and len(d) == 3:
        cf, vs = d[1], d[2]
        if all(s[0] == "one" for s in cf) and all(s[0] == "one" for s in vs) and len(cf) == len(vs):
            terms = sorted(zip([s[2] for s in vs], [s[2] for s in cf]))
            return "lin{" + " ".join("%s*%s" % (c, v) for v, c in terms) + "}"
        return "lin{coefs=%s vars=%s}" % (canon_seq(cf), canon_seq(vs))
    if isinstance(d, tuple):
        return "(" + ", ".join(canon_form(x) for x in d) + ")"
    if isinstance(d, dict):
        from ..conlit import aff_txt
        return aff_txt(d)
    return str(d)


def canon_seq(segs):
    return "[" + ", ".join(("%s x %s" % (s[1], s[2])) if s[0] == "rep" else str(s[2]) for s in segs) + "]"


def rule_L1(rep, funcs):
    import json
    import os
    l1 = rep.rule("C01.L1", "TABLE", "the constraints each simple converter adds (abstract interpretation over symbolic argument lists) are the reviewed linearisation of its operator", floor=25)
    refp = os.path.join(os.path.dirname(__file__), "C01_forms.json")
    ref = json.load(open(refp))
    got = l1_forms(funcs)
    for key, want in sorted(ref["forms"].items()):
        if key not in got:
            raise AnalysisBroken("C01.L1: converter %s not found" % key)
        f, forms, err = got[key]
        if forms is None:
            raise AnalysisBroken("C01.L1: %s left the analysable fragment: %s" % (key, err))
        if any("?" in x for x in forms) and forms != want["forms"]:
            raise AnalysisBroken("C01.L1: %s builds a constraint through a construct the analysis does not model: %s" % (key, [x for x in forms if "?" in x][:1]))
        missing = [x for x in want["forms"] if x not in forms]
        extra = [x for x in forms if x not in want["forms"]]
        l1.check(not missing and not extra, key, short_loc(f.loc), "%s: %s" % (key, want["reading"]),
                 "%s no longer builds the reviewed linearisation (%s). Expected but absent: %s.  Built instead: %s" % (key, want["reading"], missing[:2], extra[:2]))
