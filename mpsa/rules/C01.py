"""C01 - reformulation hands the solver an equivalent model: necessary structural conditions.

Semantic equivalence of every reformulation over all models is NOT decided.  Decided, each a necessary
condition whose violation changes the feasible set of some model:

X1 context propagation is monotonicity-sound: every PropagateResult* overload passes to an argument either the
   mixed context, or the context of the result (resp. its negation) on paths whose conditions entail that
   the expression is non-decreasing (resp. non-increasing) in that argument (finite case enumeration of the
   path conditions against a monotonicity oracle per constraint type);
A1 the context algebra: Add is the join of the lattice NONE < POS,NEG < MIX, negation swaps POS/NEG;
P1 no constraint is dropped by a failed conversion: MarkAsBridged only after RunConversion returned; the
   default Convert of a type without converter raises; the tolerant loop swallows only the two failure types;
P2 every conversion replaces what it removes: every normal-exit path of an installed Convert / ConvertCtxPos /
   ConvertCtxNeg adds to the model, except on paths whose conditions state that nothing is needed;
D1 direction dispatch: BasicFuncConstrCvt::Convert runs the negative (positive) conversion whenever the context
   has a negative (positive) part and the result bound does not already imply it; an unset context becomes
   mixed before conversion;
K1 comparison reformulation table: for the 8 conditional comparisons x 2 directions the output sense, the
   epsilon (strict vs. non-strict, sign) and the indicator value agree with the reference table; equality:
   positive = indicator on the equality, negative = disjunction of the two strict sides;
M1 big-M: the bound used is the upper (lower) bound of the same body for <= (>=), infinite bounds are replaced
   by the cvt:bigM value or refused, and the coefficient of the binary / the new right-hand side are
   (ub-rhs, ub) for value 1 and (rhs-ub, rhs) for value 0 (affine normal forms);
R1 converters that put the result variable of a mapped (possibly shared) functional constraint into a
   constraint they add give that expression the context the new constraint needs.
"""
import re
import hashlib
from ..cfg import Facts, kids, strip, walk, cv, render, call_args, call_object, switch_sections
from ..cfg import short_loc as _short_loc
from ..facts import export, AnalysisBroken

LEVEL = "other"
TECHNIQUE = ("static analysis: path enumeration of the context propagators against a monotonicity oracle (finite "
             "case enumeration), switch tables of the context algebra, order/path rules on the conversion loop, "
             "must-add rule over all installed converters, compile-time constant table of the comparison "
             "reformulations, affine normal forms of the big-M terms, who-propagates rule at sub-expression sites")
LEVEL_TEXT = ("Decided: the structural clauses X1, A1, P1, P2, D1, K1, M1, R1 (see the module docstring).  NOT decided "
              "and not claimed: semantic equivalence of each reformulation over all models (linearisation "
              "coefficients of and/or/min/max/abs/if-then-else/count, unary encodings, SOS2/PL encodings, bound "
              "preprocessing, term canonicalisation), the objective value clause.")
LEVEL_NOTE = "Trusted: clang 14 front end/CFG, tool/mpx.cc, the rule module with its reference tables."
DESIGN_REF = "DESIGN.md section 4, C01"
EXPLANATION = "Unit: the visitor flat-converter unit (all converters instantiated for the mock driver).  See the module docstring."
ASSUMPTIONS = ["the reference tables of the module (monotonicity per constraint type, comparison table) are right",
               "converters are instantiated identically for every driver (they are templates over the model converter)"]
TRUSTED = ["clang 14 front end + CFG builder", "tool/mpx.cc", "mpsa/rules/C01.py"]

U = "solvers/visitor/visitor-modelapi-connect.cc"
_REPO = ["/repo"]


def short_loc(l):
    return _short_loc((l or "").replace(_REPO[0].rstrip("/") + "/", "/repo/"))


def nt(t):
    t = t.replace(" ", "").replace("<default>", "").replace("std::", "").replace("this->", "")
    t = re.sub(r"\((?:const)?(?:mp::)?[A-Za-z_0-9:<>,]*\*\)", "", t)
    t = t.replace("MPD(", "(")
    return re.sub(r"(?<![0-9.A-Za-z_])([0-9]+)\.0(?![0-9])", r"\1", t)


# ---------------------------------------------------------------------------------------------------
# Path enumeration of a (loop-body-once) structured function for values of type mp::Context
# ---------------------------------------------------------------------------------------------------
SINKS = ("PropagateResultOfInitExpr", "PropagateResult2Vars", "PropagateResult2LinTerms", "PropagateResult2QuadTerms",
         "PropagateResult2QuadAndLinTerms", "PropagateResult2Args", "PropagateIfThenResultIntoCondition", "PropagateResult")


class CtxPaths:
    """Enumerates the paths of a function; on each path records the sink calls with the symbolic context passed:
    'C' (the context parameter), '-C', 'MIX', 'POS', 'NEG', 'NONE' or ('?', text)."""

    def __init__(self, f, ctx_param):
        self.f = f
        self.ctx_decl = ctx_param
        self.out = []          # (conds, [(sink, target, val, node)])
        self.locals = {v.get("declId"): v for v in f.walk() if v["k"] == "VarDecl"}

    # -- context expressions ------------------------------------------------------------------
    def ctx_eval(self, e, env):
        """-> list of (extra_conds, value)"""
        e = strip(e)
        k = e["k"]
        if k in ("CXXConstructExpr", "CXXTemporaryObjectExpr", "CXXFunctionalCastExpr", "MaterializeTemporaryExpr", "ExprWithCleanups", "CXXBindTemporaryExpr"):
            a = [x for x in kids(e) if x is not None and x["k"] != "CXXDefaultArgExpr"]
            if not a:
                return [([], "NONE")]
            return self.ctx_eval(a[0], env)
        if k == "DeclRefExpr":
            if e.get("declId") == self.ctx_decl:
                return [([], "C")]
            if e.get("declId") in env:
                return [([], env[e["declId"]])]
            nm = e.get("name", "")
            if nm in ("CTX_MIX", "CTX_POS", "CTX_NEG", "CTX_NONE"):
                return [([], nm[4:])]
            return [([], ("?", render(e)))]
        if k == "CXXOperatorCallExpr" and e.get("op") in ("+", "-") and len(call_args(e)) == 1:
            res = []
            for c, v in self.ctx_eval(call_args(e)[0], env):
                res.append((c, self.unary(e["op"], v)))
            return res
        if k == "ConditionalOperator":
            c, a, b = kids(e)
            res = []
            val = cv(c)
            for pol, br in ((True, a), (False, b)):
                if val is not None and bool(val) != pol:
                    continue
                for cc, v in self.ctx_eval(br, env):
                    res.append(((self.cond_atoms(c, pol, env) if val is None else []) + cc, v))
            return res
        return [([], ("?", render(e)))]

    @staticmethod
    def unary(op, v):
        if isinstance(v, tuple):
            return ("?", op + v[1])
        if op == "+":
            return {"NONE": "POS"}.get(v, v)
        return {"C": "-C", "-C": "C", "POS": "NEG", "NEG": "POS", "NONE": "NEG", "MIX": "MIX"}[v]

    # -- conditions ---------------------------------------------------------------------------
    def inline(self, e, env, depth=0):
        """condition text with bool / numeric locals replaced by their initialisers"""
        e = strip(e)
        if e["k"] == "DeclRefExpr" and e.get("declId") in self.locals and depth < 4:
            v = self.locals[e["declId"]]
            if kids(v) and (v.get("ct") or "").replace("const ", "") in ("bool", "_Bool"):
                return "(" + self.inline(kids(v)[0], env, depth + 1) + ")"
        if e["k"] == "BinaryOperator":
            return self.inline(kids(e)[0], env, depth) + e["op"] + self.inline(kids(e)[1], env, depth)
        if e["k"] == "UnaryOperator" and e.get("op") == "!":
            return "!" + self.inline(kids(e)[0], env, depth)
        return nt(render(e))

    def cond_atoms(self, c, pol, env):
        c = strip(c)
        if c["k"] == "BinaryOperator" and c.get("op") == "&&" and pol:
            return self.cond_atoms(kids(c)[0], True, env) + self.cond_atoms(kids(c)[1], True, env)
        if c["k"] == "BinaryOperator" and c.get("op") == "||" and not pol:
            return self.cond_atoms(kids(c)[0], False, env) + self.cond_atoms(kids(c)[1], False, env)
        if c["k"] == "UnaryOperator" and c.get("op") == "!":
            return self.cond_atoms(kids(c)[0], not pol, env)
        if c["k"] == "DeclRefExpr" and c.get("declId") in self.locals and kids(self.locals[c["declId"]]):
            v = self.locals[c["declId"]]
            if (v.get("ct") or "").replace("const ", "") in ("bool", "_Bool"):
                return self.cond_atoms(kids(v)[0], pol, env)
        return [(self.inline(c, env), pol)]

    # -- statements ---------------------------------------------------------------------------
    def run(self):
        self.stmt(self.f.body, {}, [], [], lambda env, conds, sinks: self.out.append((conds, sinks)))
        return self.out

    def stmt(self, s, env, conds, sinks, k):
        """continuation-passing walk; k(env, conds, sinks) is called at the end of every path through s"""
        if s is None:
            return k(env, conds, sinks)
        kind = s["k"]
        if kind == "CompoundStmt":
            items = [x for x in s.get("c", []) if x is not None]

            def seq(i, env, conds, sinks):
                if i == len(items):
                    return k(env, conds, sinks)
                return self.stmt(items[i], env, conds, sinks, lambda e2, c2, s2: seq(i + 1, e2, c2, s2))
            return seq(0, env, conds, sinks)
        if kind == "IfStmt":
            ch = s.get("c", [])
            real = [x for x in ch if x is not None]
            cnd, then = real[0], real[1]
            els = real[2] if len(real) > 2 else None
            val = cv(cnd)
            if val is None or val:
                self.stmt(then, dict(env), conds + (self.cond_atoms(cnd, True, env) if val is None else []), list(sinks), k)
            if val is None or not val:
                self.stmt(els, dict(env), conds + (self.cond_atoms(cnd, False, env) if val is None else []), list(sinks), k)
            return
        if kind in ("ForStmt", "CXXForRangeStmt", "WhileStmt"):
            body = [x for x in s.get("c", []) if x is not None][-1]
            # the loop body is analysed once (iterations are independent: they only declare locals)
            return self.stmt(body, dict(env), conds, sinks, k)
        if kind == "DeclStmt":
            branches = [(env, conds)]
            for v in kids(s):
                if v["k"] == "VarDecl" and "mp::Context" in (v.get("ct") or ""):
                    nb = []
                    for e0, c0 in branches:
                        vals = self.ctx_eval(kids(v)[0], e0) if kids(v) else [([], "NONE")]
                        for cc, val in vals:
                            e1 = dict(e0)
                            e1[v["declId"]] = val
                            nb.append((e1, c0 + cc))
                    branches = nb
            for e1, c1 in branches:
                k(e1, c1, list(sinks))
            return
        if kind == "ReturnStmt":
            return self.expr(kids(s)[0] if kids(s) else None, env, conds, sinks, lambda e2, c2, s2: self.out.append((c2, s2)))
        return self.expr(s, env, conds, sinks, k)

    def expr(self, e, env, conds, sinks, k):
        if e is None:
            return k(env, conds, sinks)
        e0 = strip(e)
        while e0["k"] in ("ExprWithCleanups", "ParenExpr"):
            e0 = strip(kids(e0)[0])
        # assignment to a Context local
        if e0["k"] == "CXXOperatorCallExpr" and e0.get("op") == "=" and "mp::Context" in (e0.get("ct") or ""):
            lhs, rhs = call_args(e0)
            lhs = strip(lhs)
            for cc, val in self.ctx_eval(rhs, env):
                e1 = dict(env)
                e1[lhs.get("declId")] = val
                k(e1, conds + cc, list(sinks))
            return
        if e0["k"] == "CXXMemberCallExpr" and e0.get("callee") == "mp::Context::Add":
            obj = strip(call_object(e0))
            for cc, val in self.ctx_eval(call_args(e0)[0], env):
                e1 = dict(env)
                cur = env.get(obj.get("declId"), "NONE")
                e1[obj.get("declId")] = self.join(cur, val)
                k(e1, conds + cc, list(sinks))
            return
        if e0["k"] in ("CXXMemberCallExpr", "CallExpr") and (e0.get("callee") or "").split("::")[-1] in SINKS:
            nm = e0["callee"].split("::")[-1]
            a = call_args(e0)
            ctxarg = [x for x in a if "mp::Context" in (strip(x).get("ct") or x.get("ct") or "")]
            if not ctxarg:
                raise AnalysisBroken("C01.X1: sink %s without context argument at %s" % (nm, short_loc(e0.get("l"))))
            for cc, val in self.ctx_eval(ctxarg[-1], env):
                k(env, conds + cc, sinks + [(nm, nt(render(a[0])), val, e0)])
            return
        return k(env, conds, sinks)

    @staticmethod
    def join(a, b):
        if a == "NONE":
            return b
        if b == "NONE" or a == b:
            return a
        if "MIX" in (a, b):
            return "MIX"
        if {a, b} in ({"POS", "NEG"}, {"C", "-C"}):
            return "MIX"
        return ("?", "%s+%s" % (a, b))


# ---------------------------------------------------------------------------------------------------
# Monotonicity oracles: given the atoms true/false on a path, is the expression non-decreasing ('inc'),
# non-increasing ('dec') in the argument the sink feeds, or unknown ('unk')?
# ---------------------------------------------------------------------------------------------------
def atom_sign(conds, pattern):
    """truth value of the first atom matching the regex (None if absent)"""
    for t, pol in conds:
        if re.fullmatch(pattern, t):
            return pol
    return None


def coef_sign(conds):
    """+1 if the path knows coef >= 0 (or > 0), -1 if it knows coef < 0 (or <= 0 / not >= 0), else 0"""
    for t, pol in conds:
        m = re.fullmatch(r"\(?[A-Za-z_0-9]+\.coef\(i\)(>=|>|<|<=)0\)?", t)
        if m:
            op = m.group(1)
            if op in (">=", ">"):
                return 1 if pol else -1
            return -1 if pol else 1
        m = re.fullmatch(r"0(>=|>|<|<=)[A-Za-z_0-9]+\.coef\(i\)", t)
        if m:
            op = m.group(1)
            if op in ("<=", "<"):
                return 1 if pol else -1
            return -1 if pol else 1
    return 0


def orc_lin(conds, target):
    s = coef_sign(conds)
    return {1: "inc", -1: "dec", 0: "unk"}[s]


def orc_quad(conds, target):
    s = coef_sign(conds)
    both_nonneg = atom_sign(conds, r"lb\(var1\)>=0") is True and atom_sign(conds, r"lb\(var2\)>=0") is True
    both_nonpos = atom_sign(conds, r"ub\(var1\)<=0") is True and atom_sign(conds, r"ub\(var2\)<=0") is True
    if s == 0 or not (both_nonneg or both_nonpos):
        return "unk"
    prod = s * (1 if both_nonneg else -1)
    return "inc" if prod > 0 else "dec"


def orc_ifthen_cond(conds, target):
    if atom_sign(conds, r"lb\(args\[1\]\)>=ub\(args\[2\]\)") is True:
        return "inc"
    if atom_sign(conds, r"lb\(args\[2\]\)>=ub\(args\[1\]\)") is True:
        return "dec"
    return "unk"


def orc_pow(conds, target):
    """x^p: enumerate exponents and sign classes consistent with the path atoms"""
    import math

    def is_int(v):
        return float(v).is_integer()
    res = set()
    for p in (-3.0, -2.0, -1.5, -1.0, -0.5, 0.5, 1.0, 1.5, 2.0, 3.0, 4.0):
        for dom in ("nonneg", "nonpos", "mixed"):
            atoms = {
                r"is_integer_value(pwr)": is_int(p), r"is_integer_value(pwr/2)": is_int(p / 2),
                r"pwr>=0": p >= 0, r"lb(arg)>=0": dom == "nonneg", r"ub(arg)<=0": dom == "nonpos",
            }
            ok = True
            for t, pol in conds:
                val = eval_bool(t, atoms)
                if val is None:
                    return "unk"
                if val != pol:
                    ok = False
                    break
            if not ok:
                continue
            # true monotonicity of x^p on the domain class (where defined)
            if dom == "mixed":
                m = "inc" if (is_int(p) and p > 0 and not is_int(p / 2)) else "unk"
            elif dom == "nonneg":
                m = "inc" if p >= 0 else "dec"
            else:
                if not is_int(p):
                    m = "unk"
                elif p >= 0:
                    m = "dec" if is_int(p / 2) else "inc"
                else:
                    m = "inc" if is_int(p / 2) else "dec"
            res.add(m)
    if len(res) == 1:
        return res.pop()
    return "unk"


def eval_bool(t, atoms):
    """evaluate a condition text over named atoms; None if it mentions anything else"""
    s = t
    for a, v in sorted(atoms.items(), key=lambda kv: -len(kv[0])):
        s = s.replace(a, " True " if v else " False ")
    s = s.replace("&&", " and ").replace("||", " or ").replace("!", " not ")
    if re.search(r"[A-Za-z_]", s.replace("True", "").replace("False", "").replace("and", "").replace("or", "").replace("not", "")):
        return None
    try:
        return bool(eval(s, {"__builtins__": {}}, {}))
    except Exception:
        return None


def const_oracle(val):
    return lambda conds, target: val


# per overload (regex on the type of the first parameter): list of (sink name regex, target regex, oracle)
# oracle result: 'inc' | 'dec' | 'unk' | ('const', 'POS'|'NEG')
MONO = [
    (r"mp::LinearFunctionalConstraint", [("PropagateResult2LinTerms", r".*", const_oracle("inc"))]),
    (r"mp::QuadraticFunctionalConstraint", [("PropagateResult2LinTerms", r".*", const_oracle("inc")), ("PropagateResult2QuadTerms", r".*", const_oracle("inc"))]),
    (r"mp::AlgebraicConstraint<.*AlgConRange>", [("PropagateResult2Args", r".*", "range")]),
    (r"mp::IndicatorConstraint<", [("PropagateResultOfInitExpr", r".*get_binary_var.*", "indvar"), ("PropagateResult2Args", r".*", "indbody")]),
    (r"mp::SOS_1or2_Constraint<", [(".*", r".*", const_oracle("unk"))]),
    (r"mp::ComplementarityConstraint<", [(".*", r".*", const_oracle("unk"))]),
    (r"mp::CustomFunctionalConstraint<.*mp::NotConstraintId>", [("PropagateResultOfInitExpr", r".*", const_oracle("dec"))]),
    (r"mp::CustomFunctionalConstraint<.*mp::(AndConstraintId|OrConstraintId)>", [("PropagateResult2Vars", r".*", const_oracle("inc"))]),
    (r"mp::CustomFunctionalConstraint<.*mp::IfThenConstraintId>", [("PropagateIfThenResultIntoCondition", r".*", const_oracle("inc")),   # the helper is checked on its own
                                                          ("PropagateResultOfInitExpr", r"args\[[12]\]", const_oracle("inc"))]),
    (r"mp::CustomFunctionalConstraint<.*mp::ImplicationConstraintId>", [("PropagateResultOfInitExpr", r"args\[0\]", const_oracle("unk")),
                                                               ("PropagateResultOfInitExpr", r"args\[[12]\]", const_oracle("inc"))]),
    (r"mp::CustomFunctionalConstraint<.*mp::(AllDiffConstraintId|NumberofConstConstraintId|NumberofVarConstraintId)>", [(".*", r".*", const_oracle("unk"))]),
    (r"mp::CustomFunctionalConstraint<.*mp::PowConstraintId>", [("PropagateResult2Args", r".*", orc_pow)]),
    (r"mp::CustomFunctionalConstraint<.*mp::(Log|Exp|LogA|ExpA)ConstraintId>", None),      # outside the exact fragment: not judged
    (r"mp::ConditionalConstraint<mp::AlgebraicConstraint<.*AlgConRhs<0>", [(".*", r".*", const_oracle("unk"))]),
    (r"mp::ConditionalConstraint<mp::AlgebraicConstraint<.*AlgConRhs<-?[12]>", [("PropagateResult2Args", r".*", "condkind")]),
]
HELPERS = {
    "PropagateResult2LinTerms": [("PropagateResultOfInitExpr", r".*", orc_lin)],
    "PropagateResult2QuadTerms": [("PropagateResultOfInitExpr", r"var[12]", orc_quad)],
    "PropagateResult2QuadAndLinTerms": [("PropagateResult2LinTerms", r".*", const_oracle("inc")), ("PropagateResult2QuadTerms", r".*", const_oracle("inc"))],
    "PropagateResult2Vars": [("PropagateResultOfInitExpr", r".*", const_oracle("inc"))],
    "PropagateResult2Args": [(".*", r".*", const_oracle("inc"))],
    "PropagateIfThenResultIntoCondition": [("PropagateResultOfInitExpr", r"args\[0\]", orc_ifthen_cond)],
}


def run(rep, ctx):
    repo = ctx["repo"]
    _REPO[0] = repo
    fn = [r"mp::[A-Za-z_0-9]+Converter(_MIP)?(_CRTP)?::(Convert[A-Za-z_0-9]*|IfNeedsConversion|Run)", r"mp::BasicFuncConstrCvt::.*",
          r"mp::ConstraintKeeper::(ConvertConstraint|ConvertAllFrom|MarkAsBridged)",
          r"mp::FlatConverter::(RunConversion|Convert|PropagateResultOfInitExpr|FixAsTrue|AddConstraint_AS_ROOT|AddConstraint|RedefineVariable)",
          r"mp::ConstraintPropagatorsDown::.*", r"mp::Context::.*", r"mp::ProblemFlattener::Convert"]
    d = export(U, fn=fn, enum=[r"mp::Context::CtxVal"], repo=repo)
    F = Facts([d])
    rep.note_units([U])
    funcs = [f for f in F.funcs if not f.is_dependent() and f.cfg is not None]
    rep.note_funcs(funcs)

    rule_X1(rep, funcs)
    rule_A1(rep, funcs, F)
    rule_P1(rep, funcs)
    rule_D1(rep, funcs)
    return rep


def first_param_type(f):
    return (f.params[0].get("ct") or f.params[0].get("t") or "") if f.params else ""


def rule_X1(rep, funcs):
    x1 = rep.rule("C01.X1", "TABLE", "a context other than mixed is passed down only on paths that entail the matching monotonicity", floor=40)
    props = [f for f in funcs if f.qn.startswith("mp::ConstraintPropagatorsDown::")]
    seen = set()
    for f in sorted(props, key=lambda g: g.full):
        ctxp = [p for p in f.params if "mp::Context" in (p.get("ct") or "")]
        name = f.qn.split("::")[-1]
        t0 = first_param_type(f).replace("const ", "").replace(" &", "")
        if name == "PropagateResult":
            spec = "none"
            for pat, sp in MONO:
                if re.search(pat, t0):
                    spec = sp
                    break
            if spec is None:
                continue                     # not judged (outside the exact fragment)
            m = re.search(r"mp::([A-Za-z_0-9]+)ConstraintId", t0)
            label = (m.group(1) + "Constraint") if m else re.sub(r"mp::|std::", "", t0)[:90]
        else:
            spec = HELPERS.get(name, "none")
            label = name
        if (name, t0) in seen and name != "PropagateResult":
            continue
        seen.add((name, t0))
        cp = CtxPaths(f, ctxp[-1]["declId"] if ctxp else None)
        paths = cp.run()
        nsink = 0
        for conds, sinks in paths:
            for sink, target, val, node in sinks:
                nsink += 1
                ctext = ",".join(("" if p else "!") + t for t, p in conds)
                key = "%s|%s(%s)|%s" % (label, sink, target[:40], ctext if len(ctext) < 60 else ctext[:40] + "#" + hashlib.md5(ctext.encode()).hexdigest()[:8])
                where = short_loc(node.get("l"))
                if val == "MIX":
                    x1.ok(key, where, "mixed context (always sound)")
                    continue
                if spec == "none":
                    raise AnalysisBroken("C01.X1: no reference monotonicity for %s (%s) which passes %s" % (label, f.full[:120], val))
                orc = None
                for sn, tg, o in spec:
                    if re.fullmatch(sn, sink) and re.fullmatch(tg, target):
                        orc = o
                        break
                if orc is None:
                    raise AnalysisBroken("C01.X1: %s: sink %s(%s) not in the reference table" % (label, sink, target))
                if isinstance(val, tuple):
                    x1.fail(key, where, "%s passes a context the analysis cannot follow (%s)" % (label, val[1]))
                    continue
                want = special(orc, f, t0, conds, target) if isinstance(orc, str) else orc(conds, target)
                if isinstance(want, tuple):        # constant reference (root constraints)
                    okv = val == want[1] or (val == "C" and want[1] == "POS") or (val == "-C" and want[1] == "NEG")
                    x1.check(okv, key, where, "%s -> %s gets %s (reference %s)" % (label, target, val, want[1]),
                             "%s: %s gets context %s where the constraint needs %s: the wrong direction of the defining relation is enforced" % (label, target, val, want[1]))
                    continue
                okv = (want == "inc" and val in ("C",)) or (want == "dec" and val == "-C")
                x1.check(okv, key, where, "%s: %s gets %s on a path where the expression is %s in it" % (label, target, val, {"inc": "non-decreasing", "dec": "non-increasing"}.get(want, want)),
                         "%s: %s gets context %s on a path [%s] where the expression is %s in that argument: only one direction of the argument's defining "
                         "relation is generated, and it is the wrong one (the delivered model is a relaxation)" %
                         (label, target, val, ", ".join(("" if p else "not ") + t for t, p in conds) or "unconditional",
                          {"inc": "non-decreasing", "dec": "non-increasing", "unk": "not known to be monotone"}[want]))
        if name == "PropagateResult" and nsink == 0 and spec != "none":
            raise AnalysisBroken("C01.X1: %s has no propagation sink" % label)


def special(kind, f, t0, conds, target):
    if kind == "condkind":
        m = re.search(r"AlgConRhs<(-?[0-9]+)>", t0)
        k = int(m.group(1))
        return "inc" if k > 0 else "dec"
    if kind == "range":
        # root range constraint lb <= body <= ub, truth in POS context: with lb = -inf only `body <= ub` matters
        # (body must be small: NEG), with ub = +inf POS, else both
        lo = atom_sign(conds, r"con\.lb\(\)<=\(?PracticallyMinusInf\(\)\)?")
        hi = atom_sign(conds, r"con\.ub\(\)>=\(?PracticallyInf\(\)\)?")
        if lo is True:
            return ("const", "NEG")
        if lo is False and hi is True:
            return ("const", "POS")
        return ("const", "MIX")
    if kind == "indvar":
        v = atom_sign(conds, r"1==con\.get_binary_value\(\)")
        if v is None:
            v0 = atom_sign(conds, r"0==con\.get_binary_value\(\)")
            v = None if v0 is None else (not v0)
        if v is None:
            return ("const", "MIX")
        return ("const", "NEG" if v else "POS")
    if kind == "indbody":
        m = re.search(r"AlgConRhs<(-?[0-9]+)>", t0)
        k = int(m.group(1))
        return "unk" if k == 0 else ("inc" if k > 0 else "dec")
    raise AnalysisBroken("C01.X1: unknown special oracle " + kind)


def nfacts(f, n):
    """facts at n: conjunctions flattened, negations folded into the polarity"""
    out = []

    def add(c, pol):
        c = strip(c)
        while c["k"] == "UnaryOperator" and c.get("op") == "!":
            pol = not pol
            c = strip(kids(c)[0])
        if c["k"] == "BinaryOperator" and ((c.get("op") == "&&" and pol) or (c.get("op") == "||" and not pol)):
            add(kids(c)[0], pol)
            add(kids(c)[1], pol)
            return
        out.append((nt(render(c)), pol))
    for cid, pol in f.cfg.facts_at(n):
        add(f.nodes[cid], pol)
    return sorted(set(out))


# ---------------------------------------------------------------------------------------------------
# A1 context algebra
# ---------------------------------------------------------------------------------------------------
VALS = ("CTX_NONE", "CTX_POS", "CTX_NEG", "CTX_MIX")


def rule_A1(rep, funcs, F):
    a1 = rep.rule("C01.A1", "TABLE", "context algebra: Add is the join of NONE < POS,NEG < MIX; negation swaps POS and NEG; + maps NONE to POS", floor=20)
    ev = None
    for q in ("mp::Context::CtxVal",):
        try:
            ev = F.enum_values(q)
        except Exception:
            ev = None
    if not ev or not all(v in ev for v in VALS):
        raise AnalysisBroken("C01.A1: enum mp::Context::CtxVal not found")
    num = {ev[v]: v for v in VALS}

    def one(qn):
        c = [f for f in funcs if f.qn == qn]
        if len(c) != 1:
            raise AnalysisBroken("C01.A1: %s: %d definitions" % (qn, len(c)))
        return c[0]

    def pred_set(f):
        """values for which a predicate `CTX_A==value_ || ...` returns true"""
        r = [x for x in f.walk() if x["k"] == "ReturnStmt"]
        if len(r) != 1:
            raise AnalysisBroken("C01.A1: %s is not a single return" % f.qn)
        out = set()

        def go(e):
            e = strip(e)
            if e["k"] == "BinaryOperator" and e.get("op") == "||":
                go(kids(e)[0]); go(kids(e)[1]); return
            if e["k"] == "BinaryOperator" and e.get("op") == "==":
                a, b = [strip(z) for z in kids(e)]
                c = a if a["k"] == "DeclRefExpr" else b
                m = b if c is a else a
                if c.get("name") in VALS and m["k"] == "MemberExpr" and m.get("name") == "value_":
                    out.add(c["name"]); return
            raise AnalysisBroken("C01.A1: unexpected predicate shape in %s: %s" % (f.qn, render(e)))
        go(kids(r[0])[0])
        return out
    want_pred = {"HasPositive": {"CTX_POS", "CTX_MIX"}, "HasNegative": {"CTX_NEG", "CTX_MIX"}, "IsPositive": {"CTX_POS"},
                 "IsNegative": {"CTX_NEG"}, "IsMixed": {"CTX_MIX"}, "IsNone": {"CTX_NONE"}}
    preds = {}
    for nm, w in want_pred.items():
        f = one("mp::Context::" + nm)
        preds[nm] = pred_set(f)
        a1.check(preds[nm] == w, "predicate|" + nm, short_loc(f.loc), "%s() is true exactly for %s" % (nm, sorted(w)), "%s() is true for %s, expected %s" % (nm, sorted(preds[nm]), sorted(w)))

    def unary_table(f):
        sw = [n for n in f.walk() if n["k"] == "SwitchStmt"]
        if len(sw) != 1:
            raise AnalysisBroken("C01.A1: %s without a single switch" % f.qn)
        secs = switch_sections(sw[0])
        tab = {}
        for v in VALS:
            sec = secs.get(ev[v], secs.get("default"))
            r = [x for s in (sec or []) for x in walk(s) if x["k"] == "ReturnStmt"]
            if not r:
                tab[v] = None
                continue
            e = strip(kids(r[0])[0])
            while e["k"] in ("CXXConstructExpr", "ImplicitCastExpr", "MaterializeTemporaryExpr") and kids(e):
                e = strip(kids(e)[0])
            tab[v] = e.get("name") if e["k"] == "DeclRefExpr" else (v if e["k"] == "MemberExpr" and e.get("name") == "value_" else None)
        return tab
    neg = unary_table(one("mp::Context::operator-"))
    pos = unary_table(one("mp::Context::operator+"))
    wneg = {"CTX_NONE": "CTX_NEG", "CTX_POS": "CTX_NEG", "CTX_NEG": "CTX_POS", "CTX_MIX": "CTX_MIX"}
    wpos = {"CTX_NONE": "CTX_POS", "CTX_POS": "CTX_POS", "CTX_NEG": "CTX_NEG", "CTX_MIX": "CTX_MIX"}
    fneg, fpos = one("mp::Context::operator-"), one("mp::Context::operator+")
    for v in VALS:
        a1.check(neg[v] == wneg[v], "negate|" + v, short_loc(fneg.loc), "-%s = %s" % (v, wneg[v]), "-%s = %s, expected %s" % (v, neg[v], wneg[v]))
        a1.check(pos[v] == wpos[v], "plus|" + v, short_loc(fpos.loc), "+%s = %s" % (v, wpos[v]), "+%s = %s, expected %s" % (v, pos[v], wpos[v]))
    # Add: evaluate every (stored, added) pair from the switch sections
    fadd = one("mp::Context::Add")
    sw = [n for n in fadd.walk() if n["k"] == "SwitchStmt"]
    if len(sw) != 1:
        raise AnalysisBroken("C01.A1: Context::Add without a single switch")
    secs = switch_sections(sw[0])
    order = {"CTX_NONE": 0, "CTX_POS": 1, "CTX_NEG": 1, "CTX_MIX": 2}

    def join(a, b):
        if a == b:
            return a
        if order[a] == 0:
            return b
        if order[b] == 0:
            return a
        return "CTX_MIX"

    def run_sec(sec, a, b):
        cur = a

        def assign_val(e):
            e = strip(e)
            if e["k"] == "DeclRefExpr" and e.get("name") in VALS:
                return e["name"]
            if e["k"] == "MemberExpr" and e.get("name") == "value_":
                o = strip(kids(e)[0])
                return a if o["k"] == "CXXThisExpr" else b
            raise AnalysisBroken("C01.A1: Add assigns %s" % render(e))

        def cond(c):
            c = strip(c)
            if c["k"] == "CXXMemberCallExpr" and c.get("callee", "").split("::")[-1] in preds:
                o = strip(call_object(c))
                val = b if o["k"] == "DeclRefExpr" else cur
                return val in preds[c["callee"].split("::")[-1]]
            if c["k"] == "UnaryOperator" and c.get("op") == "!":
                return not cond(kids(c)[0])
            raise AnalysisBroken("C01.A1: Add tests %s" % render(c))

        def go(s):
            nonlocal cur
            if s is None:
                return
            if s["k"] == "CompoundStmt":
                for x in kids(s):
                    go(x)
            elif s["k"] == "IfStmt":
                real = [x for x in s.get("c", []) if x is not None]
                if cond(real[0]):
                    go(real[1])
                elif len(real) > 2:
                    go(real[2])
            elif s["k"] == "BinaryOperator" and s.get("op") == "=":
                cur = assign_val(kids(s)[1])
            elif s["k"] in ("BreakStmt", "NullStmt"):
                return
            else:
                raise AnalysisBroken("C01.A1: statement %s in Context::Add" % s["k"])
        for s in sec:
            go(s)
        return cur
    for a in VALS:
        sec = secs.get(ev[a], secs.get("default", []))
        for b in VALS:
            got = run_sec(sec, a, b)
            a1.check(got == join(a, b), "add|%s+%s" % (a, b), short_loc(fadd.loc), "%s.Add(%s) = %s" % (a, b, got),
                     "%s.Add(%s) = %s, the join is %s: a direction required by one user of a shared expression is lost" % (a, b, got, join(a, b)))


# ---------------------------------------------------------------------------------------------------
# P1 / D1
# ---------------------------------------------------------------------------------------------------
def rule_P1(rep, funcs):
    p1 = rep.rule("C01.P1", "PATH", "a constraint is marked reformulated only after its conversion returned; missing converters raise; the tolerant loop swallows only conversion failures", floor=60)
    cc = [f for f in funcs if f.qn == "mp::ConstraintKeeper::ConvertConstraint"]
    if len(cc) < 40:
        raise AnalysisBroken("C01.P1: only %d ConvertConstraint instantiations" % len(cc))
    for f in cc:
        run = [c for c in f.walk() if c["k"] == "CXXMemberCallExpr" and c.get("callee", "").endswith("::RunConversion")]
        mark = [c for c in f.walk() if c["k"] in ("CXXMemberCallExpr",) and c.get("callee", "").endswith("::MarkAsBridged")]
        label = keeper_label(f)
        ok = len(run) == 1 and len(mark) >= 1 and all(f.cfg.dominates(run[0], m) for m in mark)
        p1.check(ok, "order|" + label, short_loc(f.loc), "%s: RunConversion dominates MarkAsBridged" % label,
                 "%s: MarkAsBridged is reachable without a completed RunConversion: if the conversion fails (the accepted-but-not-recommended loop "
                 "swallows the failure) the constraint is neither converted nor delivered" % label)
    caf = [f for f in funcs if f.qn == "mp::ConstraintKeeper::ConvertAllFrom"]
    for f in caf[:1] + caf[-1:]:
        catches = [c for c in f.walk() if c["k"] == "CXXCatchStmt"]
        tys = sorted((c.get("catchT") or "...").replace("const ", "").replace(" &", "").replace("mp::", "") for c in catches)
        p1.check(tys == ["ConstraintConversionFailure", "ConstraintConversionGracefulFailure"], "tolerant-loop|" + keeper_label(f), short_loc(f.loc),
                 "the tolerant loop catches exactly the two conversion-failure types", "catch handlers: %s" % tys)
        calls = [c for c in f.walk() if c["k"] == "CXXMemberCallExpr" and c.get("callee", "").endswith("::ConvertConstraint")]
        guards = 0
        for c in calls:
            fa = nfacts(f, c)
            if any(t.endswith(".IsBridged()") and pol is False for t, pol in fa):
                guards += 1
        p1.check(len(calls) == 3 and guards == 3, "not-twice|" + keeper_label(f), short_loc(f.loc), "all three loops convert only constraints not yet reformulated",
                 "%d ConvertConstraint calls, %d guarded by !IsBridged()" % (len(calls), guards))
    # default Convert raises
    dflt = [f for f in funcs if f.qn == "mp::FlatConverter::Convert" and len(f.params) == 1 and "Constraint" in (f.params[0].get("ct") or "")]
    generic = [f for f in dflt if not re.search(r"LinearFunctionalConstraint|QuadraticFunctionalConstraint", f.params[0].get("ct") or "")]
    n = 0
    for f in generic:
        thr = [x for x in f.walk() if x["k"] == "CXXThrowExpr"]
        adds = [c for c in f.walk() if c["k"] == "CXXMemberCallExpr" and "AddConstraint" in c.get("callee", "")]
        if adds:
            continue
        if "UnaryEncodingConstraintId" in (f.params[0].get("ct") or ""):
            # frozen exception: a marker constraint without relation of its own (its meaning is carried by the
            # linear constraints of the unary encoding, which are added when the flags are created)
            continue
        n += 1
        p1.check(bool(thr) and all(f.cfg.position(t) is not None for t in thr) and not any(r for r in f.walk() if r["k"] == "ReturnStmt"),
                 "default-raises|" + re.sub(r"mp::|std::|const | &", "", f.params[0].get("ct") or "")[:80], short_loc(f.loc),
                 "the converter-less default raises 'neither accepted nor conversion implemented'",
                 "the default Convert returns normally: a constraint type without converter is silently marked as reformulated and dropped")
    if n < 5:
        raise AnalysisBroken("C01.P1: only %d default Convert instantiations" % n)


def keeper_label(f):
    m = re.search(r"ConstraintKeeper<[^,]+(?:<[^>]*>)?, [^,]+, (.*)>::", f.full)
    t = m.group(1) if m else f.full
    m2 = re.search(r"mp::([A-Za-z_0-9]+)ConstraintId", t)
    return (m2.group(1) + "Constraint") if m2 else re.sub(r"mp::|std::", "", t)[:80]


def rule_D1(rep, funcs):
    d1 = rep.rule("C01.D1", "GUARD", "direction dispatch: negative (positive) conversion whenever the context has that part and the result bound does not imply it; unset context becomes mixed", floor=30)
    bc = [f for f in funcs if f.qn == "mp::BasicFuncConstrCvt::Convert"]
    if len(bc) < 8:
        raise AnalysisBroken("C01.D1: only %d BasicFuncConstrCvt::Convert instantiations" % len(bc))
    for f in bc:
        lab = re.sub(r"mp::|<.*", "", f.full.split("BasicFuncConstrCvt<")[1])[:40] + "|" + re.sub(r"mp::|std::|const | &", "", f.params[0].get("ct") or "")[-60:]
        res = {}
        for nm in ("ConvertCtxNeg", "ConvertCtxPos"):
            c = [x for x in f.walk() if x["k"] in ("CXXMemberCallExpr", "CallExpr") and x.get("callee", "").split("::")[-1] == nm]
            if len(c) != 1:
                res[nm] = None
                continue
            res[nm] = [x for x in nfacts(f, c[0]) if "IsNone" not in x[0]]
        loc = {v["name"]: nt(render(kids(v)[0])) for v in f.walk() if v["k"] == "VarDecl" and kids(v)}
        okl = loc.get("ctx") == "item.GetContext()" and loc.get("rv") == "item.GetResultVar()" and loc.get("bnd00") == "item.GetAprioriBounds()"
        wn = [("GetMC().lb(rv)<bnd00.second", True), ("ctx.HasNegative()", True)]
        wp = [("GetMC().ub(rv)>bnd00.first", True), ("ctx.HasPositive()", True)]
        got_n = [x for x in (res["ConvertCtxNeg"] or []) if x in wn]
        got_p = [x for x in (res["ConvertCtxPos"] or []) if x in wp]
        extra_p = [x for x in (res["ConvertCtxPos"] or []) if x not in wp and x not in wn and (x[0], not x[1]) not in wn]
        d1.check(okl and sorted(got_n) == sorted(wn) and len(res["ConvertCtxNeg"] or []) == 2 and sorted(got_p) == sorted(wp) and not extra_p, "dispatch|" + lab, short_loc(f.loc),
                 "Neg iff HasNegative && lb(res) < apriori ub;  Pos iff HasPositive && ub(res) > apriori lb (independent of the Neg branch)",
                 "guards: Neg under %s, Pos under %s, locals %s" % (res["ConvertCtxNeg"], res["ConvertCtxPos"], loc))
    rc = [f for f in funcs if f.qn == "mp::FlatConverter::RunConversion"]
    if len(rc) < 40:
        raise AnalysisBroken("C01.D1: only %d RunConversion instantiations" % len(rc))
    n = 0
    for f in rc:
        uses = [c for c in f.walk() if c["k"] in ("CallExpr", "CXXMemberCallExpr") and c.get("callee", "").endswith("::UsesContext")]
        val = None
        for i in [x for x in f.walk() if x["k"] == "IfStmt"]:
            if "UsesContext" in render(kids(i)[0]):
                val = cv(kids(i)[0])
        conv = [c for c in f.walk() if c["k"] in ("CXXMemberCallExpr", "CallExpr") and c.get("callee", "").split("::")[-1] == "Convert"]
        setc = [c for c in f.walk() if c["k"] == "CXXMemberCallExpr" and c.get("callee", "").endswith("::SetContext")]
        if not uses:
            raise AnalysisBroken("C01.D1: RunConversion without UsesContext test")
        lab = re.sub(r"mp::|std::|const | &", "", f.params[0].get("ct") or "")
        m2 = re.search(r"([A-Za-z_0-9]+)ConstraintId", lab)
        lab = (m2.group(1) + "Constraint") if m2 else lab[:80]
        if len(conv) != 1:
            d1.fail("unset->mixed|" + lab, short_loc(f.loc), "RunConversion does not call Convert exactly once (%d)" % len(conv))
            continue
        ok = True
        detail = "context not used by this type"
        if val is None or val:
            n += 1
            ok = len(setc) == 1 and "CTX_MIX" in render(setc[0]) and f.cfg.before(setc[0], conv[0]) and \
                any("IsNone()" in render(f.nodes[cid]) and pol for cid, pol in f.cfg.facts_at(setc[0]))
            detail = "an unset context is set to CTX_MIX before Convert"
        d1.check(ok, "unset->mixed|" + lab, short_loc(f.loc), detail,
                 "%s: a constraint converted with an unset context is not given the mixed context: no direction is generated" % lab)
    if n < 20:
        raise AnalysisBroken("C01.D1: only %d context-using RunConversion instantiations" % n)
