"""C03 - NL writer output is read back as the same model (text = binary).

Table-agreement rules between the NL writer (nl-writer2) and the NL reader:
T1 opcode tables (nl-opcodes.h vs gen-expr-info.cc vs generated expr-info.cc);
T2 the two copies of the header declarations;
T3 header layout: writer's field order per line vs reader's consumption order;
T4 segment letters and bound-type codes;
W1 number path: every double written to the .nl goes through the formatter's
   %g (shortest round trip) - never through a lossy printf;
T5 text and binary formatters accept the same conversions, and the binary
   widths equal what the binary reader consumes.
"""
import os
import re
from ..cfg import reach_calls, xrender, norm_facts, expand_locals, Facts, kids, strip, walk, cv, render, short_loc, call_args, TRANSPARENT, switch_sections
from ..facts import export_many, export, AnalysisBroken
from .. import units

LEVEL = "other"
TECHNIQUE = ("static analysis: agreement of tables extracted from the type-checked AST of writer "
             "and reader (opcode tables, header field order per line, segment letters, bound codes, "
             "conversion letters and byte widths) and a who-may-print rule for doubles")
LEVEL_TEXT = ("Writer and reader are two implementations of one format; every table that defines the "
              "format is extracted from both and compared completely (all 69 opcodes, all header "
              "fields, all segment letters, all conversion letters). Equality of the tables is "
              "necessary for the round trip; digit generation/parsing (dtoa/strtod) is not decided.")
LEVEL_NOTE = ("Trusted: clang 14 front end, tool/mpx.cc, the rule module. Not decided: correctness of "
              "g_fmt/dtoa and strtod digit handling; feeder implementations outside the repository.")
DESIGN_REF = "DESIGN.md section 4, C03"
EXPLANATION = (
    "Necessary structural conditions of the NL round trip, decided completely: (T1) each opcode "
    "constant the writer exposes has the code and name of the reader's generator table, and the "
    "generated dispatch table maps that code to that expression kind; (T2) the two copies of the "
    "header structures/enumerators are identical; (T3) on each of the ten header lines the fields "
    "the writer prints are, in order, the fields the reader assigns, writer-conditional fields are "
    "reader-optional and the complementarity difference is inverted by the reader; (T4) every "
    "segment letter the writer emits is a case of NLReader::Read and the bound codes 0-5 agree; "
    "(W1) every floating-point value written to the .nl file passes through the formatter's g "
    "conversion (shortest round-trip text / 8 raw bytes), the header being the only other printer; "
    "(T5) both formatters handle the same conversion letters and the binary widths match the "
    "binary reader's reads. The value-level claim (bit-identical numbers) additionally depends on "
    "dtoa/strtod, which is not decided.")
ASSUMPTIONS = ["feeders call the writer callbacks as documented (the writer's own emission code is what "
               "is analysed)", "g_fmt(x, 0) yields the shortest text that strtod reads back as x"]
TRUSTED = ["clang 14 front end", "tool/mpx.cc", "mpsa/rules/C03.py"]

NLW = "mp::NLWriter2"
PRINT_FUNCS = ("apr", "Printf", "nput")


def lit_of(F, e, f=None):
    """set of possible string literals of a format argument (literal, static
    array variable, or ?: of those)."""
    e = strip(e)
    if e is None:
        return None
    if e["k"] == "StringLiteral":
        return {e.get("v", "")}
    if e["k"] == "ConditionalOperator":
        a, b = lit_of(F, kids(e)[1], f), lit_of(F, kids(e)[2], f)
        return None if a is None or b is None else a | b
    if e["k"] == "DeclRefExpr":
        v = F.vars.get(e.get("qn"))
        if v and v.get("init"):
            return lit_of(F, v["init"][0], f)
        if f is not None and e.get("dk") == "Var":
            # local `const char *s = ...` possibly reassigned: all assigned literals
            out = set()
            for n in f.walk():
                if n["k"] == "VarDecl" and n.get("declId") == e.get("declId") and kids(n):
                    r = lit_of(F, kids(n)[0], f)
                    if r is None:
                        return None
                    out |= r
                if n["k"] == "BinaryOperator" and n.get("op") == "=" and \
                        strip(kids(n)[0]).get("declId") == e.get("declId"):
                    r = lit_of(F, kids(n)[1], f)
                    if r is None:
                        return None
                    out |= r
            return out or None
    return None


def convs(fmt):
    """conversion letters of a printf-like format (with %.16g -> g, %zd -> z, %ld -> l)."""
    out = []
    i = 0
    while i < len(fmt):
        if fmt[i] == "%":
            j = i + 1
            if j < len(fmt) and fmt[j] == "%":
                i = j + 1
                continue
            while j < len(fmt) and fmt[j] in ".0123456789-+ #*":
                j += 1
            if j < len(fmt):
                c = fmt[j]
                if c in "lhz" and j + 1 < len(fmt) and fmt[j + 1] in "dug":
                    out.append(c)
                    j += 1
                else:
                    out.append(c)
            i = j + 1
        else:
            i += 1
    return out


def hdr_field(e):
    """name of the header field an argument denotes (Hdr().x, h.x, header.x)."""
    e = strip(e)
    if e is None:
        return None
    if e["k"] in ("CStyleCastExpr", "CXXStaticCastExpr", "CXXFunctionalCastExpr"):
        return hdr_field(kids(e)[0])
    if e["k"] == "MemberExpr" and (e.get("qn", "").startswith(("NLProblemInfo_C::", "NLInfo_C::", "mp::NLHeader::"))
                                   or "NLHeader" in e.get("qn", "")):
        return e.get("name")
    if e["k"] == "ArraySubscriptExpr":
        b = hdr_field(kids(e)[0])
        return (b + "[]") if b else None
    if e["k"] == "BinaryOperator" and e.get("op") == "-":
        a, b = hdr_field(kids(e)[0]), hdr_field(kids(e)[1])
        if a and b:
            return "%s-%s" % (a, b)
    if e["k"] == "ConditionalOperator":
        a, b = hdr_field(kids(e)[1]), hdr_field(kids(e)[2])
        c = cv(kids(e)[1]), cv(kids(e)[2])
        return a or b
    return None


def run(rep, ctx):
    repo = ctx["repo"]
    jobs = [dict(unit="nl-writer2/src/nl-writer2.cc", repo=repo, closure=1, closure_roots=r"mp::BinaryFormatter::nput$",
                 fn=[NLW + r"::.*", r"mp::(TextFormatter|BinaryFormatter)::.*", r"mp::File::Printf", r"DAVID_GAY_GFMT::(g_fmt|gfmt)"],
                 var=[r"mp::nl::[A-Z_0-9]+", r"mp::gl_[A-Za-z0-9_]+", r"gl_[A-Za-z0-9_]+"],
                 rec=[r"NLProblemInfo_C", r"NLInfo_C", r"mp::NLHeader", r"NLHeader_C"],
                 enum=[r"mp::NLInfo::.*", r"mp::.*", r".*"]),
            dict(unit="nl-writer2/src/nl-solver.cc", repo=repo, var=[r"mp::nl::[A-Z_0-9]+", r"mp::gl_[A-Za-z0-9_]+", r"gl_[A-Za-z0-9_]+"],
                 fn=[NLW + r"::.*"]),
            dict(unit="src/nl-reader.cc", repo=repo,
                 fn=[r"mp::internal::TextReader::ReadHeader", r"mp::operator<<"],
                 rec=[r"NLProblemInfo_C", r"NLInfo_C", r"mp::NLHeader"]),
            dict(unit="src/problem.cc", repo=repo, closure=1, closure_roots=r"mp::internal::NLReader::(ReadBounds|ReadConstant)$",
                 fn=[r"mp::internal::NLReader::(Read|ReadBounds|ReadConstant|ReadColumnSizes)",
                     r"mp::internal::BinaryReader::.*", r"mp::internal::BinaryReaderBase::.*",
                     r"mp::internal::TextReader::ReadDouble"]),
            dict(unit="src/gen-expr-info.cc", repo=repo, var=[r"info"], enum=[r"mp::expr::Kind"]),
            dict(unit="src/expr-info.cc", repo=repo, var=[r"mp::internal::OpCodeInfo::INFO"],
                 enum=[r"mp::expr::Kind"])]
    if not os.path.exists(os.path.join(repo, "src", "expr-info.cc")):
        jobs.pop()           # generated file absent (not built): the generator table alone is compared
    res = export_many(jobs)
    F = Facts(res)
    FW = Facts([res[1], res[0]])
    rep.note_units([j["unit"] for j in jobs])
    rep.note_funcs(f for f in F.funcs if not f.is_dependent())

    opcode_rules(rep, F, res, repo)
    header_copy_rule(rep, repo)
    layout_rule(rep, F, FW)
    segment_rules(rep, F, FW)
    number_rules(rep, F, FW)
    packing_rule(rep, F)
    defvar_rule(rep, F)
    bound_record_rule(rep, F, FW)
    item_index_rule(rep, F, FW)
    return rep


# ---- T1 ---------------------------------------------------------------------------
def opcode_rules(rep, F, res, repo):
    t1 = rep.rule("C03.T1", "TABLE",
                  "every writer opcode constant equals the generator row of the same name (code, "
                  "text) and the generated reader table maps the code to that kind", floor=60)
    wr = {}
    for qn, v in F.vars.items():
        if qn.startswith("mp::nl::") and v.get("init"):
            ks = kids(v["init"][0])
            if len(ks) >= 2:
                code = cv(ks[0])
                name = None
                for x in walk(ks[1]):
                    if x["k"] == "StringLiteral":
                        name = x.get("v")
                wr[qn.split("::")[-1]] = (code, name)
    gen = {}
    info = F.vars.get("info")
    if info is None or not info.get("init"):
        raise AnalysisBroken("generator table `info` not found in gen-expr-info.cc")
    kinds = None
    for u in res:
        for e in u.get("enums", []):
            if e["qn"] == "mp::expr::Kind":
                kinds = {x["name"]: int(x["value"]) for x in e["enumerators"]}
    for row in kids(strip(info["init"][0])):
        ks = kids(row)
        if len(ks) < 7:
            continue
        strs = [next((x.get("v") for x in walk(k_) if x["k"] == "StringLiteral"), None) for k_ in ks]
        gen[strs[0]] = dict(kind=cv(ks[1]), first=strs[2], opcode=cv(ks[3]), text=strs[6])
    if len(gen) < 60 or len(wr) < 60:
        raise AnalysisBroken("opcode tables too small: writer %d, generator %d" % (len(wr), len(gen)))
    for name, (code, text) in sorted(wr.items()):
        g = gen.get(name)
        ok = g is not None and g["opcode"] == code and g["text"] == text
        t1.check(ok, "opcode|%s" % name, "nl-writer2/include/mp/nl-opcodes.h",
                 "%s = {%s, %r} agrees with the generator" % (name, code, text),
                 "%s = {%s, %r} but the reader's generator has %s" % (name, code, text, g))
    for name, g in sorted(gen.items()):
        if 0 <= g["opcode"] <= 78:
            t1.check(name in wr, "writer-has|%s" % name, "src/gen-expr-info.cc",
                     "NL opcode %d (%s) is available to the writer" % (g["opcode"], name))
    # codes unique among NL opcodes
    codes = {}
    for name, g in gen.items():
        if 0 <= g["opcode"] <= 78:
            codes.setdefault(g["opcode"], []).append(name)
    dup = {c: n for c, n in codes.items() if len(n) > 1}
    t1.check(not dup, "codes-unique", "src/gen-expr-info.cc", "NL opcodes are unique: duplicates %s" % dup)
    tab = F.vars.get("mp::internal::OpCodeInfo::INFO")
    if tab is not None and tab.get("init") and kinds:
        rows = kids(strip(tab["init"][0]))
        for name, g in sorted(gen.items()):
            c = g["opcode"]
            if not (0 <= c <= 78):
                continue
            if c >= len(rows):
                t1.fail("reader-table|%s" % name, "src/expr-info.cc", "no row %d" % c)
                continue
            rk = cv(kids(rows[c])[0])
            t1.check(rk == g["kind"], "reader-table|%s" % name, "src/expr-info.cc",
                     "generated OpCodeInfo::INFO[%d].kind is expr::%s" % (c, name),
                     "generated OpCodeInfo::INFO[%d].kind = %s, generator says %s (stale generated file?)"
                     % (c, rk, g["kind"]))


# ---- T2 ---------------------------------------------------------------------------
def header_copy_rule(rep, repo):
    t2 = rep.rule("C03.T2", "TABLE",
                  "nl-writer2's copy of the header declarations equals mp's (fields, order, "
                  "enumerator values)", floor=3)
    cache = os.path.join(units.VERIF, ".cache")
    os.makedirs(cache, exist_ok=True)
    outs = []
    for tag, inc in (("mp", os.path.join(repo, "include")), ("nlw2", os.path.join(repo, "nl-writer2", "include"))):
        stub = os.path.join(cache, "hdr_%s_%d.cc" % (tag, abs(hash(repo)) % 100000))
        with open(stub, "w") as fh:
            fh.write('#include "%s/mp/nl-header.h"\n' % inc)
        d = export("hdr-" + tag, kind="bare", path=stub, repo=repo, extra_flags=["-I" + inc],
                   rec=[r"NLProblemInfo_C", r"NLInfo_C", r"mp::NLHeader", r"mp::NLInfo", r"mp::NLProblemInfo"],
                   enum=[r".*"])
        outs.append(d)
    a, b = outs
    ra = {r["qn"]: [(f["name"], f["ct"], f["index"]) for f in r["fields"]] for r in a["records"]}
    rb = {r["qn"]: [(f["name"], f["ct"], f["index"]) for f in r["fields"]] for r in b["records"]}
    for qn in sorted(set(ra) | set(rb)):
        t2.check(ra.get(qn) == rb.get(qn), "record|%s" % qn, "nl-writer2/include/mp/nl-header-c.h",
                 "%s: %d fields identical in both copies" % (qn, len(ra.get(qn, []))),
                 "%s differs: mp %s vs nl-writer2 %s" % (
                     qn, [x for x in ra.get(qn, []) if x not in rb.get(qn, [])][:4],
                     [x for x in rb.get(qn, []) if x not in ra.get(qn, [])][:4]))
    ea = {e["qn"] + "@" + str(i): [(x["name"], x["value"]) for x in e["enumerators"]]
          for i, e in enumerate(sorted(a["enums"], key=lambda e: (e["qn"], e["l"].split(":")[1].zfill(6))))
          if "/mp/nl-header" in e["l"]}
    eb = {e["qn"] + "@" + str(i): [(x["name"], x["value"]) for x in e["enumerators"]]
          for i, e in enumerate(sorted(b["enums"], key=lambda e: (e["qn"], e["l"].split(":")[1].zfill(6))))
          if "/mp/nl-header" in e["l"]}
    va, vb = sorted(ea.values()), sorted(eb.values())
    t2.check(va == vb and len(va) >= 2, "enumerators", "nl-writer2/include/mp/nl-header-c.h",
             "%d enumerations with identical enumerator values" % len(va),
             "enumerators differ between the copies: %s" % [x for x in va if x not in vb][:3])


# ---- T3 ---------------------------------------------------------------------------
def writer_lines(F, f):
    """[[(field, conditional)]] per header line, from WriteNLHeader (structured
    walk: an if/else whose branches both end the line counts as one line)."""
    def fields_of_call(c, cond):
        args = call_args(c)
        fmts = lit_of(F, args[0], f)
        if fmts is None:
            raise AnalysisBroken("format of %s not resolvable" % render(c)[:80])
        nconv = max(len(convs(s)) for s in fmts)
        minconv = min(len(convs(s)) for s in fmts)
        out = []
        for i, a in enumerate(args[1:1 + nconv]):
            fld = hdr_field(a)
            if fld is None:
                # a local that holds the printed value: every value it is given (initialiser and assignments) and their guards
                a0 = strip(a)
                srcs, guards = [], []
                if a0["k"] == "DeclRefExpr" and a0.get("dk") == "Var":
                    for n_ in f.walk():
                        if n_["k"] == "VarDecl" and n_.get("declId") == a0.get("declId") and kids(n_):
                            srcs.append(kids(n_)[0])
                        if n_["k"] == "BinaryOperator" and n_.get("op") == "=" and strip(kids(n_)[0]).get("declId") == a0.get("declId"):
                            srcs.append(kids(n_)[1])
                            guards += [t for t, _p in norm_facts(f, n_)]
                    fld = next((x for x in (hdr_field(y) for y in srcs) if x), None)
                if fld is None:
                    if i == 0 and ("TEXT" in render(a) or any("TEXT" in g for g in guards)):
                        out.append(("format", False))
                    continue
            out.append((fld, cond or i >= minconv))
        return out, all("\n" in s for s in fmts)

    def walk_stmt(n, cond):
        """returns (fields, ends_line)"""
        if n is None:
            return [], False
        k = n["k"]
        if k == "CompoundStmt":
            out, ends = [], False
            for s_ in kids(n):
                f2, e2 = walk_stmt(s_, cond)
                out += f2
                ends = ends or e2
            return out, ends
        if k == "IfStmt":
            ks = kids(n)
            a, ea = walk_stmt(ks[1], True)
            b, eb = walk_stmt(ks[2], True) if len(ks) > 2 else ([], False)
            if len(ks) > 2 and ea and eb:
                longer, shorter = (a, b) if len(a) >= len(b) else (b, a)
                merged = []
                for i, (fld, c_) in enumerate(longer):
                    if i < len(shorter):
                        merged.append((fld, cond or (shorter[i][0] != fld)))
                    else:
                        merged.append((fld, True))
                return merged, True
            return a + b, False
        if k == "ForStmt":
            return walk_stmt(kids(n)[-1], True)
        calls = [c for c in walk(n) if c["k"] == "CXXMemberCallExpr" and c.get("callee", "").endswith("::Printf")]
        out, ends = [], False
        for c in calls:
            f2, e2 = fields_of_call(c, cond)
            out += f2
            ends = ends or e2
        return out, ends

    lines, cur = [], []
    for st in kids(f.body):
        f2, e2 = walk_stmt(st, False)
        cur += f2
        if e2:
            lines.append(cur)
            cur = []
    if cur:
        lines.append(cur)
    return lines


def reader_lines(f):
    lines, cur = [], []
    nodes = sorted(f.walk(), key=lambda n: n["i"])
    seen = set()
    for n in nodes:
        if n["k"] == "CXXMemberCallExpr":
            last = n.get("callee", "").split("::")[-1]
            if last == "ReadTillEndOfLine":
                lines.append(cur)
                cur = []
            elif last in ("ReadOptionalUInt", "ReadOptionalDouble", "ReadOptionalInt") and call_args(n):
                fld = hdr_field(call_args(n)[0])
                if fld:
                    cur.append((fld, True))
                elif render(call_args(n)[0]) == "arith_kind":
                    cur.append(("arith_kind", True))
            elif last == "ReadChar" and not lines and not cur:
                cur.append(("format", False))
        elif n["k"] == "BinaryOperator" and n.get("op") == "=":
            fld = hdr_field(kids(n)[0])
            rhs = strip(kids(n)[1])
            if fld and rhs is not None and rhs["k"] == "CXXMemberCallExpr" and \
                    rhs.get("callee", "").split("::")[-1] == "ReadUInt":
                cond = f.enclosing(n, ("IfStmt",)) is not None
                cur.append((fld, cond))
    if cur:
        lines.append(cur)
    return lines


def layout_rule(rep, F, FW):
    t3 = rep.rule("C03.T3", "TABLE",
                  "header: per line, the fields the writer prints are in the order the reader "
                  "assigns them; writer-conditional fields are reader-optional", floor=10)
    w = [f for f in FW.funcs if f.name == "WriteNLHeader" and not f.is_dependent()]
    r = [f for f in F.funcs if f.qn == "mp::internal::TextReader::ReadHeader" and not f.is_dependent()]
    if not w or not r:
        raise AnalysisBroken("WriteNLHeader / ReadHeader not found")
    wl, rl = writer_lines(FW, w[0]), reader_lines(r[0])
    if len(wl) != 10 or len(rl) != 10:
        raise AnalysisBroken("expected 10 header lines: writer %d, reader %d" % (len(wl), len(rl)))
    ALIAS = {"num_compl_conds-num_nl_compl_conds": "num_compl_conds", "ampl_options[]": "ampl_options[]"}
    for i, (wf, rf) in enumerate(zip(wl, rl)):
        wn = [ALIAS.get(x, x) for x, _ in wf]
        rn = [x for x, _ in rf]
        # options line: writer prints count, options..., vbtol; reader the same (loop)
        if i == 0:
            wn = [x for x in wn if x != "prob_name"]
            rn2 = list(rn)
            ok = wn[:2] == ["format", "num_ampl_options"] and "ampl_vbtol" in wn and \
                rn2[:2] == ["format", "num_ampl_options"] and "ampl_vbtol" in rn2
            t3.check(ok, "line1", short_loc(w[0].loc), "line 1: writer %s, reader %s" % (wn, rn2))
            continue
        n = min(len(wn), len(rn))
        same = wn[:n] == rn[:n]
        # reader fields beyond what the writer prints must be optional; writer extras are ignored by
        # ReadTillEndOfLine only if the reader stopped at an optional/last field
        extra_r = rf[n:]
        ok = same and all(opt for _, opt in extra_r)
        # writer-conditional => reader-optional
        for (wfld, wcond), (rfld, ropt) in zip(wf, rf):
            if wcond and not ropt:
                ok = False
        t3.check(ok, "line%d" % (i + 1), short_loc(w[0].loc),
                 "line %d: writer prints %s; reader reads %s" % (i + 1, wf, rf),
                 "line %d: writer prints %s but reader reads %s" % (i + 1, wf, rf))
    # derived field: the reader adds num_nl_compl_conds back
    inv = [n for n in r[0].walk() if n["k"] == "CompoundAssignOperator" and n.get("op") == "+=" and
           hdr_field(kids(n)[0]) == "num_compl_conds" and hdr_field(kids(n)[1]) == "num_nl_compl_conds"]
    t3.check(len(inv) == 1, "compl-conds-inverse", short_loc(r[0].loc),
             "writer prints num_compl_conds - num_nl_compl_conds, reader adds num_nl_compl_conds back")


# ---- T4 ---------------------------------------------------------------------------
def all_formats(F, FW):
    """(function, call, set of literal formats) for every apr/Printf/fprintf in the writer."""
    out = []
    for f in FW.funcs:
        if f.is_dependent() or not (f.qn.startswith(NLW) or f.qn.startswith("mp::")):
            continue
        for c in f.walk():
            if c["k"] not in ("CXXMemberCallExpr", "CallExpr"):
                continue
            last = c.get("callee", "").split("::")[-1]
            if last in ("apr", "Printf") or c.get("callee") in ("fprintf", "std::fprintf", "printf", "snprintf"):
                args = call_args(c)
                fi = 1 if last == "apr" else (1 if c.get("callee", "").endswith("fprintf") else 0)
                if len(args) <= fi:
                    continue
                fm = lit_of(FW, args[fi], f)
                out.append((f, c, fm, args[fi + 1:], last))
    return out


def segment_rules(rep, F, FW):
    t4 = rep.rule("C03.T4", "TABLE",
                  "segment letters emitted by the writer are cases of NLReader::Read; bound-type "
                  "codes 0-5 agree with ReadBounds", floor=14)
    rd = [f for f in F.funcs if f.qn == "mp::internal::NLReader::Read" and len(f.params) == 1
          and not f.is_dependent() and "TextReader" in f.full]
    if not rd:
        raise AnalysisBroken("NLReader::Read not found")
    cases = set()
    for n in rd[0].walk():
        if n["k"] == "CaseStmt":
            v = cv(kids(n)[0])
            if v is not None and 32 < v < 127:
                cases.add(chr(v))
    letters = {}
    for f, c, fm, args, last in all_formats(F, FW):
        if last != "apr" or not f.qn.startswith(NLW) or fm is None:
            continue
        for s in fm:
            if not s:
                continue
            ch = s[0]
            if ch == "%" and s.startswith("%c") and args:
                v = cv(args[0])
                ch = chr(v) if v else None
            if ch and ch.isalpha():
                letters.setdefault(ch, short_loc(c.get("l")))
    # segment formats stored in writer helper objects (e.g. "x%d\t# initial guess\n")
    for f in FW.funcs:
        if f.is_dependent() or not f.qn.startswith(NLW):
            continue
        for n in f.walk():
            if n["k"] == "StringLiteral" and re.match(r"^[A-Za-z]%d", n.get("v", "")):
                letters.setdefault(n["v"][0], short_loc(n.get("l")))
    EXPR_LETTERS = set("vnhfo")      # expression-level codes, read by ReadNumericExpr etc.
    seg = {k: v for k, v in letters.items() if k not in EXPR_LETTERS and k not in "isl"}
    for ch, where in sorted(seg.items()):
        t4.check(ch in cases, "segment|%s" % ch, where, "segment '%s' is a case of NLReader::Read" % ch,
                 "writer emits segment '%s' which NLReader::Read does not know" % ch)
    for ch in sorted(letters):
        if ch in EXPR_LETTERS:
            t4.ok("expr-code|%s" % ch, letters[ch], "expression code '%s' written" % ch)
    rb = [f for f in F.funcs if f.name == "ReadBounds" and not f.is_dependent()]
    codes_r = set()
    for n in rb[0].walk():
        if n["k"] == "CaseStmt":
            v = cv(kids(n)[0])
            if v is not None:
                codes_r.add(v)
    wb = [f for f in FW.funcs if f.name == "WriteBndRangeOrCompl" and not f.is_dependent()]
    if not wb:
        raise AnalysisBroken("WriteBndRangeOrCompl not found")
    codes_w = set()
    for n in wb[0].walk():
        if n["k"] == "StringLiteral" and re.match(r"^\d", n.get("v", "")):
            codes_w.add(int(n["v"][0]))
    t4.check(codes_w == {0, 1, 2, 3, 4, 5} and codes_w <= codes_r, "bound-codes", short_loc(wb[0].loc),
             "writer bound codes %s, reader cases %s" % (sorted(codes_w), sorted(codes_r)))
    # complementarity variable index: writer cvar + 1, reader --var_index
    plus = any(n["k"] == "BinaryOperator" and n.get("op") == "+" and render(n) == "cvar + 1" for n in wb[0].walk())
    # the index handed to OnComplementarity is the number read from the file minus one, however that is written:
    # a decrement of the local, `x - 1` in the call, or a reading helper that returns `x - 1`
    by_id_ = getattr(F, "_by_id", {})

    def read_minus_one(f_, e, depth=0):
        e = strip(e)
        if e is None or depth > 3:
            return False
        if e["k"] == "BinaryOperator" and e.get("op") == "-" and cv(kids(e)[1]) == 1:
            return "ReadUInt" in xrender(f_, kids(e)[0], True)
        if e["k"] in ("CXXMemberCallExpr", "CallExpr"):
            g_ = by_id_.get(e.get("calleeId"))
            if g_ is not None and g_.cfg is not None:
                rs_ = [r_ for r_ in g_.walk() if r_["k"] == "ReturnStmt" and kids(r_)]
                return len(rs_) == 1 and read_minus_one(g_, kids(rs_[0])[0], depth + 1)
            return False
        if e["k"] == "DeclRefExpr" and e.get("dk") == "Var":
            vd_ = [v for v in f_.walk() if v["k"] == "VarDecl" and v.get("declId") == e.get("declId") and kids(v)]
            if len(vd_) != 1:
                return False
            dec_ = [n for n in f_.walk() if ((n["k"] == "UnaryOperator" and n.get("op") == "--") or
                                             (n["k"] == "CompoundAssignOperator" and n.get("op") == "-=" and cv(kids(n)[1]) == 1)) and
                    strip(kids(n)[0]).get("declId") == e.get("declId")]
            wr_ = [n for n in f_.walk() if n["k"] == "BinaryOperator" and n.get("op") == "=" and strip(kids(n)[0]).get("declId") == e.get("declId")]
            if len(dec_) == 1 and not wr_:
                return "ReadUInt" in render(kids(vd_[0])[0]) and f_.cfg.dominates(dec_[0], e)
            if not dec_ and not wr_:
                return read_minus_one(f_, kids(vd_[0])[0], depth + 1)
        return False
    oc_ = [c_ for c_ in rb[0].walk() if c_["k"] in ("CXXMemberCallExpr", "CallExpr") and (c_.get("callee") or "").endswith("OnComplementarity")]
    minus = bool(oc_) and all(len(call_args(c_)) >= 2 and read_minus_one(rb[0], call_args(c_)[1]) for c_ in oc_)
    t4.check(plus and minus, "compl-index-shift", short_loc(wb[0].loc),
             "writer prints cvar + 1 and the reader decrements the index")
    # column sizes: 'k' cumulative, 'K' plain
    kk = {}
    for n in rd[0].walk():
        if n["k"] == "CaseStmt" and cv(kids(n)[0]) in (ord("k"), ord("K")):
            call = next((x for x in walk(n) if x["k"] == "CXXMemberCallExpr" and "ReadColumnSizes" in x.get("callee", "")), None)
            if call is not None:
                kk[chr(cv(kids(n)[0]))] = "true" if "ReadColumnSizes<true>" in call.get("calleeFull", "") else "false"
    t4.check(kk == {"k": "true", "K": "false"}, "column-size-letters", short_loc(rd[0].loc),
             "'k' is read cumulatively, 'K' as plain sizes: %s" % kk)


# ---- W1 / T5 ---------------------------------------------------------------------------
def number_rules(rep, F, FW):
    w1 = rep.rule("C03.W1", "WHO",
                  "every double written to the .nl file goes through the formatter's g conversion; "
                  "no lossy printf of a double", floor=8)
    seen = set()
    for f, c, fm, args, last in all_formats(F, FW):
        if not f.qn.startswith(NLW):
            continue
        dargs = [a for a in args if strip(a, casts=False) is not None and
                 (strip(a, casts=False).get("ct") in ("double", "float") or strip(a).get("ct") in ("double", "float"))]
        if not dargs:
            continue
        key = "%s|%s|%s" % (f.qn.replace("mp::", ""), last, "/".join(sorted(fm or ["?"]))[:50].replace("\n", "\\n"))
        if (key, c.get("l")) in seen:
            continue
        seen.add((key, c.get("l")))
        if fm is None:
            w1.fail(key, short_loc(c.get("l")), "format of a double-printing call is not a literal")
            continue
        if last == "apr":
            ok = all(("g" in convs(s)) and len([x for x in convs(s) if x == "g"]) >= 1 for s in fm
                     if any(x in convs(s) for x in "g") or True)
            # each double argument must meet a g conversion in every alternative that consumes it
            ok = all(convs(s).count("g") <= len(dargs) and all(x in "cdgszhl" for x in convs(s)) for s in fm)
            w1.check(ok, key, short_loc(c.get("l")),
                     "%s: doubles %s printed with the formatter's g conversion (%s)" % (
                         f.name, [render(a) for a in dargs], sorted(fm)))
        else:
            # FILE-level printf of a double: precision must be >= 17 significant digits
            bad = []
            for s in fm:
                for m in re.finditer(r"%([-+ #0]*)(\d*)(?:\.(\d*))?([lh]*)([a-zA-Z])", s):
                    if m.group(5) in "gGeEfF":
                        prec = m.group(3)
                        if prec is None or prec == "" or int(prec) < 17:
                            bad.append(m.group(0))
            w1.check(not bad, key, short_loc(c.get("l")),
                     "%s: %s prints %s with at least 17 significant digits" % (f.name, last, [render(a) for a in dargs]),
                     "%s: %s(%r) prints the double %s with conversion %s: the value read back differs "
                     "(e.g. 1.5e-7 -> 2e-07)" % (f.name, last, sorted(fm)[0], [render(a) for a in dargs], bad))
    # nput
    for f in FW.funcs:
        if f.is_dependent():
            continue
        if f.qn == "mp::TextFormatter::nput":
            calls = [c for c in f.walk() if c["k"] == "CXXMemberCallExpr" and c.get("callee", "").endswith("::apr")]
            ok = len(calls) == 1 and lit_of(FW, call_args(calls[0])[1], f) == {"n%g\n"}
            w1.check(ok, "TextFormatter::nput", short_loc(f.loc), "text constants are written as n%g")
        if f.qn == "mp::BinaryFormatter::nput":
            fm = set()
            for c in f.walk():
                if c["k"] == "CXXMemberCallExpr" and c.get("callee", "").endswith("::apr"):
                    fm |= lit_of(FW, call_args(c)[1], f) or set()
            # exactness: each integer record is written only under an equality between the floating value and its
            # integer image (the conversion to long was exact)
            hw_ = value_holders(f)

            def exact_guard(call):
                def atoms(c, pol, out):
                    c = strip(c)
                    while c["k"] == "UnaryOperator" and c.get("op") == "!":
                        pol = not pol
                        c = strip(kids(c)[0])
                    if c["k"] == "BinaryOperator" and ((c.get("op") == "&&" and pol) or (c.get("op") == "||" and not pol)):
                        atoms(kids(c)[0], pol, out); atoms(kids(c)[1], pol, out)
                    elif c["k"] == "BinaryOperator" and c.get("op") == ",":
                        atoms(kids(c)[1], pol, out)
                    else:
                        out.append((c, pol))
                    return out
                for cid, pol in f.cfg.facts_at(call):
                    if isinstance(pol, tuple):
                        continue
                    for c, p_ in atoms(f.nodes[cid], pol, []):
                        if c["k"] == "BinaryOperator" and c.get("op") in ("==", "!=") and (c["op"] == "==") == p_:
                            w_ = sorted(x for x in (hw_(kids(c)[0]), hw_(kids(c)[1])) if x is not None)
                            if len(w_) == 2 and w_[0] == 0 and w_[1] >= 32:
                                return True
                return False
            ints = [c for c in f.walk() if c["k"] == "CXXMemberCallExpr" and c.get("callee", "").endswith("::apr") and
                    (lit_of(FW, call_args(c)[1], f) or set()) & {"s%h", "l%l"}]
            exact = bool(ints) and all(exact_guard(c) for c in ints)
            w1.check(fm == {"s%h", "l%l", "n%g"} and exact, "BinaryFormatter::nput", short_loc(f.loc),
                     "binary constants: short/long only under the exactness test (double)x == L, else 8 raw bytes")
    # the g case of the text formatter ends in g_fmt with output_prec
    ta = [f for f in FW.funcs if f.qn == "mp::TextFormatter::apr" and not f.is_dependent()]
    if not ta:
        raise AnalysisBroken("TextFormatter::apr not found")
    gf = [c for c in ta[0].walk() if c["k"] == "CallExpr" and c.get("callee", "").endswith("gfmt")]
    w1.check(len(gf) == 1 and "output_prec" in render(gf[0]), "text-g-uses-gfmt", short_loc(ta[0].loc),
             "TextFormatter::apr formats doubles with gfmt(x, output_prec)")
    # the digit string comes from dtoa (magnitude only): the sign must be written before any of it
    gfm = [f for f in FW.funcs if f.qn == "DAVID_GAY_GFMT::g_fmt" and not f.is_dependent()]
    if gf and gf[0].get("callee", "").startswith("DAVID_GAY_GFMT") and not gfm:
        raise AnalysisBroken("DAVID_GAY_GFMT::g_fmt not found")
    if gfm:
        g = gfm[0]
        w2 = rep.rule("C03.W2", "PATH", "g_fmt writes the sign before any digit text of dtoa's magnitude; the buffer is rewound only for NaN", floor=3)
        sgn = [n for n in g.walk() if n["k"] == "BinaryOperator" and n.get("op") == "=" and cv(kids(n)[1]) == ord("-") and
               render(kids(n)[0]).replace(" ", "") == "*b++" and
               any(render(g.nodes[cid]) == "sign" and pol is True for cid, pol in g.cfg.facts_at(n))]
        copies = [n for n in g.walk() if n["k"] == "BinaryOperator" and n.get("op") == "=" and
                  render(kids(n)[1]).replace(" ", "") == "*s++" and render(kids(n)[0]).replace(" ", "") in ("*b", "*b++")]
        w2.check(len(sgn) == 1, "sign-store", short_loc(g.loc), "one store of '-' guarded by dtoa's sign flag")
        if sgn:
            sif = g.enclosing(sgn[0], ("IfStmt",))
            anchor = kids(sif)[0] if sif is not None else sgn[0]
            late = [c for c in copies if not g.cfg.dominates(anchor, c)]
            w2.check(bool(copies) and not late, "sign-before-digits", short_loc(sgn[0].get("l")),
                     "the sign decision precedes all %d copies of dtoa's digit/Infinity text" % len(copies),
                     "the text of dtoa is copied at %s before the sign is written: a negative value (e.g. -Infinity) loses its sign"
                     % (short_loc(late[0].get("l")) if late else "?"))
        rew = [n for n in g.walk() if n["k"] == "BinaryOperator" and n.get("op") == "=" and render(n).replace(" ", "") == "b=b0"]
        okr = all(any(render(g.nodes[cid]).replace(" ", "") == "*s=='N'" and pol is True for cid, pol in g.cfg.facts_at(n)) for n in rew)
        w2.check(okr, "rewind-only-for-nan", short_loc(g.loc), "the output position is reset to the start only for NaN (which has no sign)")
        zero = [n for n in g.walk() if n["k"] == "IfStmt" and render(kids(n)[0]).replace(" ", "") == "!x"]
        w2.check(len(zero) == 1, "zero-special-case", short_loc(g.loc), "zero (either sign) is written as 0 before dtoa is consulted")
    rdbl = [f for f in F.funcs if f.qn == "mp::internal::TextReader::ReadDouble" and not f.is_dependent()]
    if rdbl:
        cs = [c.get("callee", "") for c in rdbl[0].walk() if c["k"] in ("CallExpr", "CXXMemberCallExpr")]
        w1.check(any(c.endswith("::strtod") for c in cs) and not any(c in ("atof", "sscanf", "std::atof") for c in cs),
                 "reader-uses-locale-strtod", short_loc(rdbl[0].loc),
                 "TextReader::ReadDouble parses with the C-locale strtod wrapper")

    t5 = rep.rule("C03.T5", "TABLE",
                  "text and binary formatters accept the same conversion letters as the writer uses; "
                  "binary widths equal the binary reader's reads", floor=8)
    used_both, used_bin, used_txt = set(), set(), set()
    for f, c, fm, args, last in all_formats(F, FW):
        if last == "apr" and fm:
            tgt = used_bin if f.qn.startswith("mp::BinaryFormatter") else \
                used_txt if f.qn.startswith("mp::TextFormatter") else used_both
            for s_ in fm:
                tgt |= set(convs(s_))
    ba = [f for f in FW.funcs if f.qn == "mp::BinaryFormatter::apr" and not f.is_dependent()]
    if not ba:
        raise AnalysisBroken("BinaryFormatter::apr not found")

    def conv_switch(f):
        """the switch over conversion letters (the one with a case 'g')"""
        for n in f.walk():
            if n["k"] == "SwitchStmt":
                sec = switch_sections(n)
                if ord("g") in sec:
                    return sec
        raise AnalysisBroken("conversion switch not found in %s" % f.full)
    st, sb = conv_switch(ta[0]), conv_switch(ba[0])
    ht = {chr(k) for k in st if isinstance(k, int) and chr(k).isalpha()}
    hb = {chr(k) for k in sb if isinstance(k, int) and chr(k).isalpha()}
    for ch in sorted(used_both | used_bin | used_txt):
        need_t = ch in used_both or ch in used_txt
        need_b = ch in used_both or ch in used_bin
        ok = (not need_t or ch in ht) and (not need_b or ch in hb)
        t5.check(ok, "letter|%s" % ch, short_loc(ba[0].loc),
                 "conversion %%%s handled by %s" % (ch, "both formatters" if need_t and need_b else
                                                    "the binary formatter (binary-only record)" if need_b else "the text formatter"),
                 "conversion %%%s used by the writer but handled by text=%s binary=%s" % (ch, ch in ht, ch in hb))
    # widths in the binary formatter: first `len = K` executed from each case label
    widths = {}
    for k_, seq in sb.items():
        if not isinstance(k_, int):
            continue
        for stt in seq:
            hit = None
            for x in walk(stt):
                if x["k"] == "BinaryOperator" and x.get("op") == "=" and render(kids(x)[0]) == "len":
                    hit = cv(kids(x)[1])
                    break
            if hit is not None:
                widths[chr(k_)] = hit
                break
    want = {"c": 1, "d": 4, "g": 8, "h": 2, "l": 4, "z": 4}
    for ch, wv in sorted(want.items()):
        t5.check(widths.get(ch) == wv, "width|%s" % ch, short_loc(ba[0].loc),
                 "binary %%%s writes %s byte(s)" % (ch, widths.get(ch)),
                 "binary %%%s writes %s byte(s), the binary reader consumes %d" % (ch, widths.get(ch), wv))
    # reader side widths
    rc = [f for f in F.funcs if f.name == "ReadConstant" and len(f.params) == 1 and not f.is_dependent()
          and "BinaryReader" in f.full]
    if rc:
        txt = " ".join(c.get("calleeFull", "") for c in rc[0].walk() if c["k"] == "CXXMemberCallExpr")
        t5.check("ReadInt<short>" in txt and "ReadInt<int>" in txt and "ReadDouble" in txt,
                 "reader-constant-widths", short_loc(rc[0].loc),
                 "binary constants: 's' -> ReadInt<short>, 'l' -> ReadInt<int> (sizeof(double)==2*sizeof(int)), 'n' -> ReadDouble")
    rs = [f for f in F.funcs if f.qn == "mp::internal::BinaryReader::ReadString" and not f.is_dependent()]
    if rs:
        t5.check("ReadUInt()" in render(rs[0].body) and "Read(length)" in render(rs[0].body),
                 "reader-string", short_loc(rs[0].loc), "binary strings: 4-byte length then the bytes")


# ---- W3: binary packing of numeric constants -----------------------------------------------------
def packing_rule(rep, F):
    """BinaryFormatter::nput writes an integer-valued constant as a 2-byte ('s') or 4-byte ('l') record.
    The record must be chosen only when the value fits: interval of the value under the branch facts."""
    w3 = rep.rule("C03.W3", "RANGE", "binary constants: the 2-byte / 4-byte integer records are used only for values that fit them, everything else goes through %g", floor=3)
    fs = [f for f in F.funcs if f.qn == "mp::BinaryFormatter::nput" and not f.is_dependent() and f.cfg is not None]
    if not fs:
        raise AnalysisBroken("C03.W3: BinaryFormatter::nput not found")
    f = fs[0]
    INF = float("inf")

    def fcv(n):
        n = strip(n)
        for _ in range(6):
            if "cv" in n:
                try:
                    return float(n["cv"])
                except ValueError:
                    return None
            if n.get("v") is not None and n["k"] in ("FloatingLiteral", "IntegerLiteral"):
                return float(n["v"])
            if n["k"] == "UnaryOperator" and n.get("op") == "-" and kids(n):
                v = fcv(kids(n)[0])
                return -v if v is not None else None
            if len(kids(n)) == 1:
                n = strip(kids(n)[0])
            else:
                return None
        return None
    hw = value_holders(f)

    def interval(call):
        lo, hi = -INF, INF
        unknown = []

        def add(c, pol):
            nonlocal lo, hi
            c = strip(c)
            while c["k"] == "UnaryOperator" and c.get("op") == "!":
                pol = not pol
                c = strip(kids(c)[0])
            if c["k"] == "BinaryOperator" and ((c.get("op") == "&&" and pol) or (c.get("op") == "||" and not pol)):
                add(kids(c)[0], pol); add(kids(c)[1], pol)
                return
            if c["k"] == "BinaryOperator" and c.get("op") == "," and pol:
                add(kids(c)[1], pol)
                return
            if c["k"] == "BinaryOperator" and c.get("op") in ("<=", "<", ">=", ">", "==", "!="):
                a, b = kids(c)
                va, vb = fcv(a), fcv(b)
                op = c["op"]
                if not pol:
                    op = {"<=": ">", "<": ">=", ">=": "<", ">": "<=", "==": "!=", "!=": "=="}[op]
                wa, wb = hw(a), hw(b)
                if op == "==":
                    if wa is not None and wb is not None:
                        # round-trip test narrow == wide: the value fits the narrower holder
                        if 16 in (wa, wb) and wa != wb:
                            lo, hi = max(lo, -32768.0), min(hi, 32767.0)
                        elif 32 in (wa, wb) and wa != wb:
                            lo, hi = max(lo, -2147483648.0), min(hi, 2147483647.0)
                        return
                    unknown.append(render(c))
                    return
                if op == "!=":
                    return
                # comparison with a constant
                if vb is not None and va is None:
                    t, v = a, vb
                elif va is not None and vb is None:
                    t, v = b, va
                    op = {"<=": ">=", "<": ">", ">=": "<=", ">": "<"}[op]
                else:
                    unknown.append(render(c))
                    return
                t0 = strip(t)
                if t0["k"] == "CallExpr" and (t0.get("callee") or "").replace("std::", "") in ("labs", "abs", "fabs", "llabs") and hw(call_args(t0)[0]) is not None:
                    if op in ("<=", "<"):
                        lo, hi = max(lo, -v), min(hi, v)
                    return
                if hw(t) is not None:
                    if op in ("<=", "<"):
                        hi = min(hi, v if op == "<=" else v - 1)
                    else:
                        lo = max(lo, v if op == ">=" else v + 1)
                    return
                unknown.append(render(c))
                return
            unknown.append(render(c))
        for cid, pol in f.cfg.facts_at(call):
            if isinstance(pol, tuple):
                continue
            add(expand_locals(f, f.nodes[cid]), pol)          # one-line range predicates are looked through
        return lo, hi, unknown
    recs = {}
    for c in f.walk():
        if c["k"] in ("CallExpr", "CXXMemberCallExpr") and (c.get("callee") or "").split("::")[-1] == "apr":
            lits = [x.get("v") for x in walk(c) if x["k"] == "StringLiteral"]
            if lits:
                recs.setdefault(lits[0][:1], []).append(c)
    if set(recs) != {"s", "l", "n"}:
        raise AnalysisBroken("C03.W3: records written by nput: %s" % sorted(recs))
    for letter, (wlo, whi, what) in (("s", (-32768.0, 32767.0, "2-byte")), ("l", (-2147483648.0, 2147483647.0, "4-byte"))):
        for c in recs[letter]:
            lo, hi, unknown = interval(c)
            if unknown and not (lo >= wlo and hi <= whi):
                raise AnalysisBroken("C03.W3: unrecognised guard(s) %s on the '%s' record" % (unknown, letter))
            w3.check(lo >= wlo and hi <= whi, "record|" + letter, short_loc(c.get("l")), "the %s integer record is written only for values in [%d, %d]" % (what, wlo, whi),
                     "the %s integer record '%s' is written for values in [%s, %s]: a constant outside [%d, %d] wraps and is read back as a different number" % (what, letter, lo, hi, wlo, whi))
    g = [x for x in recs["n"] if any(s.get("v", "").startswith("n%g") for s in walk(x) if s["k"] == "StringLiteral")]
    w3.check(len(g) == 1, "record|n", short_loc(f.loc), "every other constant is written with %g")


def value_holders(f):
    """-> hw(expr): width in bits (0 = floating) of the value holder an expression denotes, None if it is not one.
    Value holders of a formatter's nput(File&, double v): the parameter, and every local initialised / assigned from
    a cast chain of a holder (x = r, L = (long)x, sh = (short)L)."""
    # variables that hold the value being written (possibly narrowed): the parameter, and every local that is
    # initialised / assigned from a cast chain of such a variable:  x = r,  L = (long)x,  sh = (short)L
    WIDTH = {"short": 16, "signed short": 16, "int": 32, "long": 64, "long long": 64, "double": 0, "float": 0}
    holder = {}          # declId -> width (0 = floating)
    for p_ in f.params:
        if (p_.get("ct") or p_.get("t") or "").replace("const ", "") == "double":
            holder[p_["declId"]] = 0

    def core(n):
        """the variable a cast chain / embedded assignment ends in"""
        n = strip(n)
        for _ in range(8):
            if n is None:
                return None
            if n["k"] in ("CStyleCastExpr", "CXXStaticCastExpr", "CXXFunctionalCastExpr", "ImplicitCastExpr", "ParenExpr") and kids(n):
                n = strip(kids(n)[0])
                continue
            if n["k"] == "BinaryOperator" and n.get("op") == "=":
                n = strip(kids(n)[0])
                continue
            if n["k"] == "BinaryOperator" and n.get("op") == ",":
                n = strip(kids(n)[1])
                continue
            break
        return n if n is not None and n["k"] == "DeclRefExpr" else None
    for _ in range(4):
        for n in f.walk():
            tgt = src = None
            if n["k"] == "VarDecl" and kids(n):
                tgt, src, ct = n.get("declId"), kids(n)[0], (n.get("ct") or "")
            elif n["k"] == "BinaryOperator" and n.get("op") == "=" and strip(kids(n)[0])["k"] == "DeclRefExpr":
                tgt, src, ct = strip(kids(n)[0]).get("declId"), kids(n)[1], (strip(kids(n)[0]).get("ct") or "")
            if tgt is None or tgt in holder:
                continue
            c_ = core(src)
            if c_ is not None and c_.get("declId") in holder and ct.replace("const ", "") in WIDTH:
                holder[tgt] = WIDTH[ct.replace("const ", "")]

    def hw(n):
        """width of the value holder the expression denotes (None if it is not one)"""
        c_ = core(n)
        return holder.get(c_.get("declId")) if c_ is not None else None

    return hw


# ---- T6: the position field of defined-variable records --------------------------------------------
def defvar_rule(rep, F):
    """`V<index> <nnz> <position>`: position 0 = used in several places, i in 1..n_con = constraint i-1,
    n_con + j = objective j-1 where n_con counts algebraic AND logical constraints (NL format; the feeder
    passes k = i > 0, k = 0, k = -j < 0).  The reader hands the number to EndCommonExpr unchanged."""
    t6 = rep.rule("C03.T6", "TABLE", "defined-variable records: position = k for k >= 0, num_algebraic_cons + num_logical_cons - k for k < 0; index and nnz are the caller's", floor=2)
    fs = [f for f in F.funcs if f.qn.endswith("::DefVarWriterFactory::StartDefVar")]
    if not fs:
        raise AnalysisBroken("C03.T6: DefVarWriterFactory::StartDefVar not found")
    f = sorted(fs, key=lambda g: g.is_dependent())[0]        # an instantiation if there is one, else the template itself
    aprs = []
    for c in f.walk():
        if c["k"] in ("CXXMemberCallExpr", "CallExpr"):
            nm = (c.get("callee") or "").split("::")[-1]
            k0 = kids(c)[0] if kids(c) else None
            if nm == "apr" or (k0 is not None and strip(k0)["k"] in ("CXXDependentScopeMemberExpr", "MemberExpr", "UnresolvedMemberExpr") and strip(k0).get("name") == "apr"):
                aprs.append(c)
    if len(aprs) != 1:
        raise AnalysisBroken("C03.T6: %d apr calls in StartDefVar" % len(aprs))
    a = call_args(aprs[0]) if aprs[0].get("callee") else kids(aprs[0])[1:]
    lit = [x.get("v") for x in walk(aprs[0]) if x["k"] == "StringLiteral"]
    vals = a[2:]

    def atom(e):
        e0 = strip(e)
        if e0["k"] in ("CXXDependentScopeMemberExpr", "MemberExpr") and e0.get("name"):
            return e0["name"]
        t = render(e).replace(" ", "").replace("this->", "")
        for suf in ("num_algebraic_cons", "num_logical_cons", "k_"):
            if t.endswith(suf) or t.endswith(suf + "()"):
                return suf
        return t

    def aff(e):
        e = strip(e)
        if e["k"] == "BinaryOperator" and e.get("op") in ("+", "-"):
            x, y = aff(kids(e)[0]), aff(kids(e)[1])
            out = dict(x)
            for t, v in y.items():
                out[t] = out.get(t, 0.0) + (v if e["op"] == "+" else -v)
            return {t: v for t, v in out.items() if v}
        if e["k"] == "UnaryOperator" and e.get("op") == "-":
            return {t: -v for t, v in aff(kids(e)[0]).items()}
        return {atom(e): 1.0}
    ok = bool(lit) and lit[0].startswith("V%d %d %d") and len(vals) >= 3 and render(vals[0]) == f.params[0]["name"] and render(vals[1]) == f.params[1]["name"]
    t6.check(ok, "index-and-nnz", short_loc(f.loc), "the record starts with the caller's index and number of linear terms")
    pos = strip(vals[2]) if len(vals) >= 3 else None
    okp = False
    got = "?"
    if pos is not None and pos["k"] == "ConditionalOperator":
        c, x, y = kids(pos)
        ct = render(c).replace(" ", "").replace("this->", "")
        if ct in ("k_>=0", "0<=k_"):
            pa, na = aff(x), aff(y)
        elif ct in ("k_<0", "0>k_"):
            pa, na = aff(y), aff(x)
        else:
            raise AnalysisBroken("C03.T6: position selector `%s` outside the fragment" % ct)
        got = "k>=0: %s; k<0: %s" % (pa, na)
        okp = pa == {"k_": 1.0} and na == {"num_algebraic_cons": 1.0, "num_logical_cons": 1.0, "k_": -1.0}
    t6.check(okp, "position", short_loc(f.loc), "position = k_ (k_ >= 0) or num_algebraic_cons + num_logical_cons - k_ (objective -k_ - 1)",
             "the position written for a defined variable is `%s`: with logical constraints in the model the number names another item than the objective the variable belongs to" % got)


# ---- T7: bound records ---------------------------------------------------------------------
def bound_record_rule(rep, F, FW):
    """Every (L, U) class is written as a record that ReadBounds decodes to the same pair."""
    t7 = rep.rule("C03.T7", "TABLE",
                  "bound records: for each class of (L, U) - free, upper only, lower only, range, equal - the code "
                  "and values WriteBndRangeOrCompl prints are decoded by ReadBounds to the same pair", floor=5)
    wb = [f for f in FW.funcs if f.name == "WriteBndRangeOrCompl" and not f.is_dependent()]
    rb = [f for f in F.funcs if f.name == "ReadBounds" and not f.is_dependent()]
    if not wb or not rb:
        raise AnalysisBroken("WriteBndRangeOrCompl / ReadBounds not found")
    w, r = wb[0], rb[0]
    # reader: decode table from the switch
    sw = [n for n in r.walk() if n["k"] == "SwitchStmt"]
    if not sw:
        raise AnalysisBroken("ReadBounds has no switch")
    decode = {}
    for code, seq in switch_sections(sw[0]).items():
        if not isinstance(code, int):
            continue
        nread = 0
        val = {}
        okc = True
        inner = set()
        for st in seq:
            for n in walk(st):
                if n["k"] == "BinaryOperator" and n.get("op") == "=" and n["i"] not in inner:
                    tgts = []
                    x = n
                    while x is not None and x["k"] == "BinaryOperator" and x.get("op") == "=":
                        t = strip(kids(x)[0])
                        tgts.append(t.get("name"))
                        rhs = strip(kids(x)[1])
                        x = rhs if rhs["k"] == "BinaryOperator" and rhs.get("op") == "=" else None
                        if x is not None:
                            inner.add(x["i"])
                        last_rhs = rhs
                    if not set(tgts) & {"lb", "ub"}:
                        continue
                    t_ = render(last_rhs).replace(" ", "")
                    tx_ = xrender(r, last_rhs, True).replace(" ", "").lower()       # named infinities are looked through
                    if "ReadDouble" in t_:
                        src = ("read", nread)
                        nread += 1
                    elif t_ == "-infinity" or (any(k_ in tx_ for k_ in ("infinity", "inff", "huge_val")) and tx_.lstrip("(").startswith("-")):
                        src = "-inf"
                    elif t_ == "infinity" or any(k_ in tx_ for k_ in ("infinity", "inff", "huge_val")):
                        src = "+inf"
                    else:
                        okc = False
                        src = None
                    for t in tgts:
                        if t in ("lb", "ub") and t not in val.get("_done", set()):
                            val[t] = src
        if okc and "lb" in val and "ub" in val:
            decode[code] = (val["lb"], val["ub"], nread)
    if len(decode) < 5:
        raise AnalysisBroken("ReadBounds: only %d bound codes decoded" % len(decode))

    def cond(n, cls):
        n = strip(expand_locals(w, n))
        if n["k"] == "UnaryOperator" and n.get("op") == "!":
            return not cond(kids(n)[0], cls)
        if n["k"] == "BinaryOperator" and n.get("op") in ("&&", "||"):
            a, b = cond(kids(n)[0], cls), cond(kids(n)[1], cls)
            return (a and b) if n["op"] == "&&" else (a or b)
        t = render(n).replace(" ", "").replace("this->", "")
        table = {"L<=NegInfty()": cls["Linf"], "NegInfty()>=L": cls["Linf"], "L>NegInfty()": not cls["Linf"], "NegInfty()<L": not cls["Linf"],
                 "U>=Infty()": cls["Uinf"], "Infty()<=U": cls["Uinf"], "U<Infty()": not cls["Uinf"], "Infty()>U": not cls["Uinf"],
                 "L==U": cls["eq"], "U==L": cls["eq"], "L!=U": not cls["eq"], "U!=L": not cls["eq"],
                 "k<=0": True, "k>0": False, "0>=k": True, "0<k": False, "k<1": True, "k>=1": False}
        if t not in table:
            raise AnalysisBroken("WriteBndRangeOrCompl: condition `%s` is not one of the bound-class tests" % render(n))
        return table[t]

    def fmt_of(e, cls):
        e = strip(e)
        while e["k"] == "ConditionalOperator":
            c, a, b = kids(e)
            e = strip(a if cond(c, cls) else b)
        if e["k"] != "StringLiteral":
            raise AnalysisBroken("WriteBndRangeOrCompl: format is not a literal")
        return e.get("v", "")

    def run_stmt(s, cls, out):
        if s is None or out:
            return
        k = s["k"]
        if k == "ReturnStmt":
            out.append(None)             # left the function without a record
            return
        if k == "CompoundStmt":
            for x in kids(s):
                run_stmt(x, cls, out)
        elif k == "IfStmt":
            ch = [x for x in s["c"] if x is not None]
            if cond(ch[0], cls):
                run_stmt(ch[1], cls, out)
            elif len(ch) > 2:
                run_stmt(ch[2], cls, out)
        else:
            for c in walk(s):
                if c["k"] in ("CallExpr", "CXXMemberCallExpr") and (c.get("callee") or "").split("::")[-1] == "apr":
                    a = call_args(c)
                    out.append((fmt_of(a[1], cls), [xrender(w, x).replace(" ", "") for x in a[2:]], c))
                    return

    body = [x for x in w.roots if x is not None and x["k"] == "CompoundStmt"]
    classes = [("free", dict(Linf=True, Uinf=True, eq=False)), ("upper-only", dict(Linf=True, Uinf=False, eq=False)),
               ("lower-only", dict(Linf=False, Uinf=True, eq=False)), ("range", dict(Linf=False, Uinf=False, eq=False)),
               ("equal", dict(Linf=False, Uinf=False, eq=True))]
    for cname, cls in classes:
        out = []
        run_stmt(body[-1], cls, out)
        out = [o_ for o_ in out if o_ is not None]
        if not out:
            t7.fail("class|%s" % cname, short_loc(w.loc), "no record is printed for the class %s" % cname)
            continue
        fm, args, call = out[0]
        m = re.match(r"^(\d)", fm)
        nconv = len(re.findall(r"%[-+ #0-9.]*[a-zA-Z]", fm))
        code = int(m.group(1)) if m else None
        vals = args[:nconv]
        want = ("-inf" if cls["Linf"] else "L", "+inf" if cls["Uinf"] else ("L" if cls["eq"] else "U"))

        def sem(v):
            if v == "L":
                return "-inf" if cls["Linf"] else "L"
            if v == "U":
                return "+inf" if cls["Uinf"] else ("L" if cls["eq"] else "U")
            return "?" + v
        got = None
        if code in decode and nconv == decode[code][2] and len(vals) == nconv:
            lbs, ubs, _ = decode[code]
            got = tuple(sem(vals[x[1]]) if isinstance(x, tuple) else x for x in (lbs, ubs))
        t7.check(got == want, "class|%s" % cname, short_loc(call.get("l")),
                 "%s: record `%s` with %s is read back as (%s, %s)" % (cname, fm.strip(), vals, want[0], want[1]),
                 "%s bounds (L, U) = (%s, %s) are written as `%s` with values %s, which ReadBounds decodes as %s" % (
                     cname, want[0], want[1], fm.strip(), vals, got if got else "an unknown / malformed record"))


# ---- T8: item record indexes ------------------------------------------------------------------
def item_index_rule(rep, F, FW):
    """The index each C/L/O/J/G record carries, the item the feeder is asked for, and the loop ranges."""
    t8 = rep.rule("C03.T8", "TABLE",
                  "item records: C<i>, L<i - num_algebraic_cons>, O<i>, J<i>, G<i> carry the index of the item whose "
                  "expression / linear part the feeder is asked for; the loops cover num_algebraic_cons, num_logical_cons, "
                  "num_objs items; k<num_vars + num_rand_vars - 1>", floor=12)

    def fn(name):
        fs = [f for f in FW.funcs if f.qn == NLW + "::" + name and not f.is_dependent()]
        if not fs:
            raise AnalysisBroken("C03.T8: %s not found" % name)
        return fs[0]

    def atom(e):
        t = render(e).replace(" ", "").replace("this->", "")
        for suf in ("num_algebraic_cons", "num_logical_cons", "num_objs", "num_vars", "num_rand_vars"):
            if t.endswith("." + suf) or t.endswith(">" + suf) or t == suf:
                return suf
        return t

    def aff(e):
        e = strip(e)
        if "cv" in e and e["k"] != "DeclRefExpr":
            try:
                v = float(e["cv"])
                return {"1": v} if v else {}
            except ValueError:
                pass
        if e["k"] == "BinaryOperator" and e.get("op") in ("+", "-"):
            x, y = aff(kids(e)[0]), aff(kids(e)[1])
            out = dict(x)
            for t, v in y.items():
                out[t] = out.get(t, 0.0) + (v if e["op"] == "+" else -v)
            return {t: v for t, v in out.items() if v}
        if e["k"] == "UnaryOperator" and e.get("op") == "-":
            return {t: -v for t, v in aff(kids(e)[0]).items()}
        return {atom(e): 1.0}

    def aprs(f):
        out = []
        for c in f.walk():
            if c["k"] in ("CXXMemberCallExpr", "CallExpr") and (c.get("callee") or "").split("::")[-1] == "apr":
                a = call_args(c)
                lits = lit_of(FW, a[1], f) if len(a) > 1 else None
                out.append((c, lits, a[2:]))
        return out

    LOOPS = ("ForStmt", "WhileStmt")

    def loop_of(f, node):
        return f.enclosing(node, LOOPS)

    def xaff(f, e):
        return aff(expand_locals(f, e, 0, True))

    def loop_shape(f, loop):
        """(variable name, bound, start, stepped once) of `for (init; v < bound; ++v)` or `while (v < bound) { ...; ++v; }`;
        start is an affine form, or None when the variable simply continues from the preceding loop over it"""
        if loop is None:
            return None
        cond = loop.get("c", [None] * 5)[2] if loop["k"] == "ForStmt" else kids(loop)[0]
        cond = strip(cond) if cond is not None else None
        if cond is None or cond["k"] != "BinaryOperator" or cond.get("op") != "<":
            return None
        v = strip(kids(cond)[0])
        if v["k"] != "DeclRefExpr":
            return None
        vid, vname = v.get("declId"), v.get("name")
        bound = xaff(f, kids(cond)[1])
        body = [x for x in loop.get("c", []) if x is not None][-1]
        incs = [n for n in walk(loop) if (n["k"] == "UnaryOperator" and n.get("op") in ("++",) and strip(kids(n)[0]).get("declId") == vid) or
                (n["k"] == "CompoundAssignOperator" and n.get("op") == "+=" and strip(kids(n)[0]).get("declId") == vid and cv(kids(n)[1]) == 1)]
        other_writes = [n for n in walk(body) if n["k"] == "BinaryOperator" and n.get("op") == "=" and strip(kids(n)[0]).get("declId") == vid]
        stepped = len(incs) == 1 and not other_writes and not any(a["k"] in ("IfStmt", "SwitchStmt") and a is not loop
                                                                   for a in f.ancestors(incs[0]) if a["i"] != loop["i"] and any(x["i"] == a["i"] for x in walk(loop)))
        start = "?"
        ini = loop.get("c", [None])[0] if loop["k"] == "ForStmt" else None

        def init_of(st):
            if st is None:
                return "?"
            for n in walk(st):
                if n["k"] == "VarDecl" and n.get("declId") == vid and kids(n):
                    return xaff(f, kids(n)[0])
                if n["k"] == "BinaryOperator" and n.get("op") == "=" and strip(kids(n)[0]).get("declId") == vid:
                    return xaff(f, kids(n)[1])
            return "?"
        if ini is not None:
            start = init_of(ini)
        if start == "?":
            # look at the statements before the loop in the enclosing block, nearest first
            par = f.parent.get(loop["i"])
            sibs = [x for x in (kids(par) if par is not None else []) if x is not None]
            idx = next((k_ for k_, x in enumerate(sibs) if x["i"] == loop["i"]), 0)
            for prev in reversed(sibs[:idx]):
                if prev["k"] in LOOPS:
                    ps = loop_shape(f, prev)
                    if ps is not None and ps[0] == vname:
                        start = ps[1]            # continues where that loop stopped
                        break
                r_ = init_of(prev)
                if r_ != "?":
                    start = r_
                    break
        return vname, bound, start, stepped

    # --- C / L / O ---------------------------------------------------------------------------
    f = fn("WriteConObjExpressions")
    NALG, NLOG, NOBJ = "num_algebraic_cons", "num_logical_cons", "num_objs"
    want = {"C": ({"V": 1.0}, {NALG: 1.0}, {}, "FeedConExpression", {"V": 1.0, "1": 1.0}),
            "L": ({"V": 1.0, NALG: -1.0}, {NALG: 1.0, NLOG: 1.0}, {NALG: 1.0}, "FeedConExpression", {"V": 1.0, "1": 1.0}),
            "O": ({"V": 1.0}, {NOBJ: 1.0}, {}, "FeedObjExpression", {"V": -1.0, "1": -1.0})}
    seen = {}
    for c, lits, args in aprs(f):
        if not args:
            continue
        ch = cv(args[0])
        letter = chr(ch) if ch else None
        if letter in want:
            seen[letter] = (c, args)
    for letter, (ix, ub, st0, feeder, dv) in want.items():
        if letter not in seen:
            t8.fail("record|%s" % letter, short_loc(f.loc), "no %s record is written" % letter)
            continue
        c, args = seen[letter]
        lp = loop_of(f, c)
        sh = loop_shape(f, lp)
        V = sh[0] if sh else "?"

        def vform(e):
            a_ = xaff(f, e)
            return {("V" if k_ == V else k_): v_ for k_, v_ in a_.items()}
        got_ix = vform(args[1])
        t8.check(got_ix == ix, "record|%s|index" % letter, short_loc(c.get("l")),
                 "%s records carry index %s" % (letter, ix), "%s records carry index `%s` (= %s), expected %s" % (letter, render(args[1]), got_ix, ix))
        t8.check(sh is not None and sh[1] == ub and sh[2] == st0 and sh[3], "record|%s|range" % letter, short_loc(c.get("l")),
                 "the %s loop runs its index from %s while it is < %s, one step per iteration" % (letter, st0 or 0, ub),
                 "the %s loop is (variable, bound, start, stepped once) = %s" % (letter, sh))
        fc = [x for x in walk(lp) if x["k"] == "CXXMemberCallExpr" and (x.get("callee") or "").split("::")[-1] == feeder] if lp is not None else []
        t8.check(len(fc) == 1 and vform(call_args(fc[0])[0]) == {"V": 1.0}, "record|%s|feeder-item" % letter, short_loc(c.get("l")),
                 "%s is asked for the item of the loop index" % feeder, "%s is asked for item `%s`" % (feeder, render(call_args(fc[0])[0]) if fc else "?"))
        wd = [x for x in walk(lp) if x["k"] == "CXXMemberCallExpr" and (x.get("callee") or "").split("::")[-1] == "WriteDefinedVariables"] if lp is not None else []
        t8.check(len(wd) == 1 and vform(call_args(wd[0])[0]) == dv, "record|%s|defined-vars" % letter, short_loc(c.get("l")),
                 "defined variables of the item are written first, selector %s" % dv,
                 "WriteDefinedVariables selector is `%s`" % (render(call_args(wd[0])[0]) if wd else "?"))
    loops = [n for n in f.walk() if n["k"] in LOOPS]
    t8.check(len(loops) == 3, "loops|continuation", short_loc(f.loc),
             "three loops: algebraic constraints, logical constraints continuing the index, objectives from 0", "%d loops" % len(loops))
    # --- J / G --------------------------------------------------------------------------------
    for name, letter, ub, feeder in (("WriteLinearConExpr", "J", {"num_algebraic_cons": 1.0}, "FeedLinearConExpr"),
                                     ("WriteObjGradients", "G", {"num_objs": 1.0}, "FeedObjGradient")):
        g = fn(name)
        lam = [x for x in FW.funcs if x.qn == NLW + "::" + name + "::(lambda)::operator()" and not x.is_dependent()]
        recs = [(c, lits, args) for h in [g] + lam[:1] for c, lits, args in aprs(h)
                if lits and all(s_.startswith(letter + "%d %d") for s_ in lits)]
        lp = [n for n in g.walk() if n["k"] in LOOPS]
        shp0 = loop_shape(g, lp[0]) if len(lp) == 1 else None
        okr = len(recs) == 1 and len(recs[0][2]) >= 2 and shp0 is not None and aff(recs[0][2][0]) == {shp0[0]: 1.0} and render(recs[0][2][1]).strip() == "nnz"
        t8.check(okr, "record|%s|index" % letter, short_loc(g.loc), "%s records carry the item index and the number of entries" % letter,
                 "%s record arguments are %s" % (letter, [render(x) for x in recs[0][2]] if recs else "missing"))
        shp = loop_shape(g, lp[0]) if len(lp) == 1 else None
        b = (shp[0], shp[1]) if shp else None
        fc = [x for x in g.walk() if x["k"] == "CXXMemberCallExpr" and (x.get("callee") or "").split("::")[-1] == feeder]
        t8.check(shp is not None and shp[1] == ub and shp[2] == {} and shp[3] and len(fc) == 1 and xaff(g, call_args(fc[0])[0]) == {shp[0]: 1.0},
                 "record|%s|range-and-item" % letter, short_loc(g.loc), "one %s record per item i < %s, %s(i)" % (letter, ub, feeder),
                 "loop bound %s, feeder argument `%s`" % (b, render(call_args(fc[0])[0]) if fc else "?"))
    # --- k / K ----------------------------------------------------------------------------------
    g = fn("WriteColumnSizes")
    n_k = 0
    kk = [(c, lits, args, g) for c, lits, args in aprs(g)]
    # ... also through a helper that prints the record for both kinds (the format comes from the call)
    for a_, c_, r_, o_ in reach_calls(FW, g, lambda x: x["k"] in ("CXXMemberCallExpr", "CallExpr") and (x.get("callee") or "").split("::")[-1] == "apr", depth=1):
        if o_ is g:
            continue
        a2 = call_args(c_)
        lits = lit_of(FW, r_(a2[1]), g) if len(a2) > 1 else None
        kk.append((a_, lits, a2[2:], o_))
    for c, lits, args, own in kk:
        if lits and all(s_[:1] in ("k", "K") for s_ in lits) and args:
            n_k += 1
            t8.check(xaff(own, args[0]) == {"num_vars": 1.0, "num_rand_vars": 1.0, "1": -1.0}, "record|k|count|%d" % n_k, short_loc(c.get("l")),
                     "the column-size record announces num_vars + num_rand_vars - 1 entries", "it announces `%s`" % render(args[0]))
    if n_k < 2:
        t8.fail("record|k|count", short_loc(g.loc), "column-size headers not found")

    # --- column sizes: 'k' cumulative, 'K' plain ---------------------------------------------------
    cw = [x for x in FW.funcs if x.qn == NLW + "::ColSizeWriter::Write" and not x.is_dependent()]
    if not cw:
        raise AnalysisBroken("C03.T8: ColSizeWriter::Write not found")
    sw = [n for n in cw[0].walk() if n["k"] == "SwitchStmt"]
    secs = switch_sections(sw[0]) if sw else {}
    def printed(seq):
        for st in seq:
            for c in walk(st):
                if c["k"] in ("CXXMemberCallExpr", "CallExpr") and (c.get("callee") or "").split("::")[-1] == "apr":
                    return render(call_args(c)[2]).replace("this->", "").strip(), c
        return None, None
    p1, c1 = printed(secs.get(1, []))
    p2, c2 = printed(secs.get(2, []))
    acc = [n for st in secs.get(1, []) for n in walk(st) if n["k"] == "CompoundAssignOperator" and n.get("op") == "+=" and
           render(kids(n)[0]).replace("this->", "").strip() == "sum_" and render(kids(n)[1]).strip() == "s"]
    okc = p1 == "sum_" and len(acc) == 1 and c1 is not None and cw[0].cfg.dominates(acc[0], c1)
    t8.check(okc, "column-sizes|cumulative", short_loc(cw[0].loc), "kind 1 ('k'): the running sum is updated with the column size and then printed",
             "kind 1 prints `%s`, accumulation found: %d" % (p1, len(acc)))
    t8.check(p2 == "s", "column-sizes|plain", short_loc(cw[0].loc), "kind 2 ('K'): the column size itself is printed", "kind 2 prints `%s`" % p2)
    # --- suffix records -----------------------------------------------------------------------------
    for nm_ in ("StartIntSuffix", "StartDblSuffix"):
        g = [x for x in FW.funcs if x.qn == NLW + "::SuffixWriterFactory::" + nm_ and not x.is_dependent()]
        if not g:
            raise AnalysisBroken("C03.T8: %s not found" % nm_)
        ap = aprs(g[0])
        okr = len(ap) == 1 and ap[0][1] and all(x.startswith("S%d %d %s") for x in ap[0][1]) and \
            [render(x).strip() for x in ap[0][2]] == ["kind", "nnz", "name"]
        t8.check(okr, "suffix-record|%s" % nm_, short_loc(g[0].loc), "suffix header `S<kind> <n> <name>` carries kind, count and name in this order",
                 "arguments %s" % ([render(x) for x in ap[0][2]] if ap else "missing"))
    pl = {}
    for x in FW.funcs:
        if x.qn.startswith(NLW + "::PLSOSWriter::Start") and x.name not in pl:
            for c in x.walk():
                if c["k"] not in ("CXXMemberCallExpr", "CallExpr") or not kids(c):
                    continue
                cal = (c.get("callee") or "").split("::")[-1] or (strip(kids(c)[0]).get("name") or "")
                if cal in ("StartIntSuffix", "StartDblSuffix"):
                    a = call_args(c) if c.get("callee") else kids(c)[1:]
                    lit = next((y.get("v") for y in walk(a[0]) if y["k"] == "StringLiteral"), None)
                    pl[x.name] = (cal, lit, cv(a[1]))
    wantp = {"StartSOSVars": ("StartIntSuffix", "sos", 0), "StartSOSCons": ("StartIntSuffix", "sos", 1),
             "StartSOSREFVars": ("StartDblSuffix", "sosref", 4)}
    for k_, v_ in wantp.items():
        t8.check(pl.get(k_) == v_, "plsos|%s" % k_, short_loc(cw[0].loc), "%s writes suffix %s with kind %d (%s)" % (k_, v_[1], v_[2], v_[0]),
                 "%s writes %s" % (k_, pl.get(k_)))
