"""C09 - a driver run ends in a well-formed result or a diagnosed failure (error-path structure).

P1 catch coverage: main -> RunBackendApp -> BackendApp::Run: every call is inside a try whose handlers
   cover mp::Error and std::exception; Run's handlers report through ReportError, RunBackendApp's print to
   stderr and return a non-zero value;
P2 failure code class: the solve result handed to ReportError is er.exit_code() if >= 0 else sol::FAILURE;
   every mp::Error constructor leaves a negative (unspecified) code unless one is given; every explicit
   constant code at a throw site lies in [150,159] u [200,299] u [500,999];
E1 exception escape: exception types not derived from std::exception never leave the converter: upward
   closure over the call graph (by function id, virtual calls through the overridden base) stops at a try
   with a matching handler that rethrows an mp::Error;
P3 the solution handler exists before options are parsed or the header is processed;
G1 the dimensions written are the NL problem's own counts;
P4 output-path faults: WriteSolFile closes the file explicitly (close() throws), open failures throw;
U1 unsupported constructs raise UnsupportedError unconditionally.
"""
import re
from ..cfg import MiniInt, CaseThrow, reach_calls, expand_locals, norm_facts, xrender, Facts, kids, strip, walk, cv, render, call_args, call_object
from ..cfg import short_loc as _short_loc
from ..facts import export, export_many, AnalysisBroken

LEVEL = "other"
TECHNIQUE = ("static analysis: try/catch coverage rules over the AST of the driver entry points, constant "
             "evaluation of error codes at all throw sites found through the call graph, exception-escape "
             "closure over the call graph (ids, override links) for non-std exception types, path rules "
             "(dominance/post-dominance) for handler creation and stream closing")
LEVEL_TEXT = ("Decided: no exception thrown below BackendApp::Run or RunBackendApp can leave main uncaught "
              "(all are std::exception-derived or converted before they leave the converter), every caught "
              "error is reported with a solve result in the failure/infeasible classes or on stderr with a "
              "non-zero return value, the solution handler exists before anything user-dependent can fail, "
              "the .sol dimensions are the NL problem's counts, write errors of the .sol file are reported. "
              "Not decided: termination and absence of crashes (signals, stack overflow, UB) over all NL "
              "files - C02/C01 cover the reader and the converter clauses; invocation without -AMPL and "
              "without wantsol, where no .sol file is requested and the message goes to stdout."
              "  Also decided (added after the seeded rounds): an unbounded indicator body is linearised only with a positive default big-M and otherwise ends in a diagnosed conversion failure; the .sol file is written iff -AMPL or wantsol bit 1 (32 evaluated cases).")
LEVEL_NOTE = "Trusted: clang 14 front end/CFG, tool/mpx.cc (incl. thrown-type classification), the rule module."
DESIGN_REF = "DESIGN.md section 4, C09"
EXPLANATION = (
    "Units: solvers/visitor/main.cc (main, RunBackendApp, BackendApp::Run), visitorbackend.cc "
    "(BackendWithModelManager::ReportError/HandleSolution), model-mgr-with-std-pb.cc (ReadNLModel and its "
    "header callback, SolverNLHandlerImpl::OnHeader, ModelManager::HandleSolution, SolutionWriterImpl::"
    "HandleSolution, SolutionAdapter, WriteSolFile, mp::Error constructors), visitor-modelapi-connect.cc "
    "(call graph of the flat converter with thrown types), src/posix.cc (BufferedFile).  See the module "
    "docstring for the rules.")
ASSUMPTIONS = ["fclose reports deferred write errors of the stream (C library)",
               "a run without -AMPL and without wantsol=1 requests no .sol file; its message goes to stdout",
               "signals, stack exhaustion and undefined behaviour are outside this check (C15, C02, C17)"]
TRUSTED = ["clang 14 front end + CFG builder", "tool/mpx.cc", "mpsa/rules/C09.py"]

_REPO = ["/repo"]
CLASSES = ((150, 159), (200, 299), (500, 999))


def short_loc(l):
    return _short_loc((l or "").replace(_REPO[0].rstrip("/") + "/", "/repo/"))


def rx(q):
    return re.sub(r"([\[\]().+*?^$|\\])", r"\\\1", q)


def in_class(v):
    return any(lo <= v <= hi for lo, hi in CLASSES)


def run_error_codes(p2, F, run_):
    """instances `Run|code|<exception type>`: the solve result BackendApp::Run reports for each kind of caught exception"""
    tr = [n for n in run_.walk() if n["k"] == "CXXTryStmt"][0]
    for t, h in catches(tr):
        rc = [c for c in walk(h) if c["k"] == "CXXMemberCallExpr" and c.get("callee", "").endswith("::ReportError")]
        if not rc:
            continue
        a0 = strip(expand_locals(run_, call_args(rc[0])[0], 0, True))      # a named solve result is looked through
        tn = t.replace("const ", "").replace("&", "").strip() or "..."
        if a0["k"] == "ConditionalOperator":
            c, x, y = kids(a0)
            c = strip(c)
            okm = c["k"] == "BinaryOperator" and c.get("op") == ">=" and strip(kids(c)[0]).get("callee") == "mp::Error::exit_code" and \
                cv(kids(c)[1]) == 0 and strip(x).get("callee") == "mp::Error::exit_code" and cv(y) is not None and in_class(cv(y))
            p2.check(okm, "Run|code|%s" % tn, short_loc(rc[0].get("l")), "reports exit_code() if >= 0, else %s" % cv(y),
                     "the reported solve result is `%s`" % render(a0)[:80])
        elif cv(a0) is None:
            # the code is computed by statements of the handler: they are evaluated for exit codes of either sign
            from ..cfg import MiniInt as _MI
            okm, seen_ = True, []
            for E_ in (-1, 0, 150, 500):
                rec_, box = [], {}

                def atom(t_, n_, env_, E_=E_):
                    if n_["k"] == "CXXMemberCallExpr":
                        cn_ = n_.get("callee") or ""
                        if cn_ == "mp::Error::exit_code":
                            return E_
                        if cn_.endswith("::ReportError"):
                            rec_.append(box["mi"].expr(call_args(n_)[0], env_, 0))
                            return 0
                    return None
                mi = _MI(F, atom)
                box["mi"] = mi
                body_ = [x for x in kids(h) if x is not None and x["k"] == "CompoundStmt"]
                try:
                    mi.cur.append(run_)
                    mi.run(kids(body_[-1]) if body_ else [], {}, 0)
                except AnalysisBroken:
                    okm = False
                    break
                seen_.append((E_, rec_))
                okm = okm and len(rec_) == 1 and ((rec_[0] == E_) if E_ >= 0 else in_class(rec_[0]))
            p2.check(okm, "Run|code|%s" % tn, short_loc(rc[0].get("l")), "reports exit_code() if >= 0, else a failure code",
                     "the reported solve result per exit code: %s" % seen_)
        else:
            p2.check(cv(a0) is not None and in_class(cv(a0)), "Run|code|%s" % tn, short_loc(rc[0].get("l")), "reports solve result %s" % cv(a0),
                     "reports solve result `%s`" % render(a0)[:60])


def catches(tr):
    """[(caught type string, handler block)] of a CXXTryStmt"""
    out = []
    for h in tr.get("c", [])[1:]:
        if h is not None and h["k"] == "CXXCatchStmt":
            out.append((h.get("catchT") or "", h))
    return out


def covers(tr, what):
    """does the try statement have a handler for exception class `what` ('mp::Error' / 'std::exception' / other)?"""
    for t, _ in catches(tr):
        if t == "":
            return True
        base = t.replace("const ", "").replace("&", "").strip()
        if base == what or base.endswith("::" + what.split("::")[-1]) and what.split("::")[-1] in base:
            return True
        if what != "std::exception" and base in ("std::exception",) and what.startswith(("mp::", "fmt::", "std::")) and what in STD_DERIVED:
            return True
    return False


STD_DERIVED = {"mp::Error", "mp::UnsupportedError", "mp::OptionError", "mp::InvalidOptionValue", "fmt::FormatError",
               "fmt::SystemError", "std::runtime_error", "std::logic_error", "mp::OverflowError", "mp::ReadError"}


def run(rep, ctx):
    repo = ctx["repo"]
    _REPO[0] = repo
    MU, BU, MM, CU = ("solvers/visitor/main.cc", "solvers/visitor/visitorbackend.cc", "solvers/visitor/model-mgr-with-std-pb.cc",
                      "solvers/visitor/visitor-modelapi-connect.cc")
    jobs = [dict(unit=MU, fn=[r"main", r"mp::RunBackendApp", r"mp::BackendApp::(Run|Init)"], repo=repo),
            dict(unit=BU, fn=[r"mp::BackendWithModelManager::(ReportError|HandleSolution)", r"mp::StdBackend::RunFromNLFile"], repo=repo),
            dict(unit=MM, fn=[r"mp::ModelManagerWithProblemBuilder::(ReadNLModel|ReadNLFile|HandleSolution|MakeProperSolutionHandler).*",
                              r"mp::internal::SolverNLHandlerImpl::OnHeader", r"mp::SolutionWriterImpl::[A-Za-z]*Solution",
                              r"mp::SolutionAdapter::.*", r"mp::Error::Error", r"mp::WriteSolFile", r"mp::BasicExprVisitor::VisitUnsupported",
                              r"mp::BasicProblem::SuffixHandler::SetValue"],
                 repo=repo, closure=1, closure_roots=r"SolutionWriterImpl::HandleSolution$"),
            dict(unit="src/posix.cc", fn=[r"fmt::BufferedFile::(close|BufferedFile|~BufferedFile)"], repo=repo),
            dict(unit=CU, fn=[r"mp::BasicExprVisitor::VisitUnsupported", r"mp::FlatConverter::ConvertItems"], repo=repo)]
    F = Facts(export_many(jobs))
    rep.note_units([MU, BU, MM, CU, "src/posix.cc"])
    funcs = [f for f in F.funcs if not f.is_dependent() and f.cfg is not None]
    rep.note_funcs(funcs)

    def one(qn, pred=lambda f: True):
        c = [f for f in funcs if f.qn == qn and pred(f)]
        if not c:
            raise AnalysisBroken("anchor %s not found" % qn)
        return c[0]

    def calls_in(f, skip_trivial=True):
        return [n for n in f.walk() if n["k"] in ("CXXMemberCallExpr", "CallExpr", "CXXOperatorCallExpr", "CXXConstructExpr",
                                                   "CXXTemporaryObjectExpr", "CXXNewExpr")]

    # ---- P1 ---------------------------------------------------------------------------
    p1 = rep.rule("C09.P1", "PATH", "catch coverage of the driver entry points; handlers report and return non-zero", floor=8)
    mn = one("main")
    rets = [r for r in mn.walk() if r["k"] == "ReturnStmt"]
    p1.check(len(rets) == 1 and strip(kids(rets[0])[0]).get("callee") == "mp::RunBackendApp", "main-returns-app-result", short_loc(mn.loc),
             "main returns RunBackendApp's value", "main returns `%s`" % (render(kids(rets[0])[0]) if rets else "?"))
    for qn in ("mp::RunBackendApp", "mp::BackendApp::Run"):
        f = one(qn)
        tries = [n for n in f.walk() if n["k"] == "CXXTryStmt"]
        name = qn.split("::")[-1]
        if len(tries) != 1:
            p1.fail("%s|one-try" % name, short_loc(f.loc), "%s has %d try statements" % (name, len(tries)))
            continue
        tr = tries[0]
        inside = {n["i"] for n in walk(tr)}
        outside = [n for n in calls_in(f) if n["i"] not in inside]
        p1.check(not outside, "%s|all-calls-in-try" % name, short_loc(f.loc), "every call of %s is inside its try statement" % name,
                 "call `%s` at %s is outside the try statement: an exception from it is not reported"
                 % (render(outside[0])[:60], short_loc(outside[0].get("l"))) if outside else "")
        cts = [t.replace("const ", "").replace("&", "").strip() for t, _ in catches(tr)]
        okc = ("mp::Error" in cts and "std::exception" in cts and cts.index("mp::Error") < cts.index("std::exception")) or "" in cts
        p1.check(okc, "%s|handlers" % name, short_loc(tr.get("l")), "handlers: %s (mp::Error before std::exception)" % cts,
                 "handlers %s do not cover mp::Error and std::exception" % cts)
        for t, h in catches(tr):
            tn = t.replace("const ", "").replace("&", "").strip() or "..."
            if name == "Run":
                rc = [c for c in walk(h) if c["k"] == "CXXMemberCallExpr" and c.get("callee", "").endswith("::ReportError")]
                p1.check(len(rc) == 1 and not [x for x in rc if [c_ for c_ in f.cfg.facts_at(x) if c_[0] in {y["i"] for y in walk(h)}]],
                         "Run|handler-reports|%s" % tn, short_loc(h.get("l")), "the %s handler reports through ReportError unconditionally" % tn)
            else:
                pr = [c for c in walk(h) if c["k"] == "CallExpr" and c.get("callee", "").split("::")[-1] in ("print", "fprintf", "fputs") and
                      any(x.get("name") == "stderr" or x.get("m") == "stderr" for a in call_args(c) for x in walk(a))]
                rr = [r for r in walk(h) if r["k"] == "ReturnStmt"]
                okr = len(rr) == 1
                why = ""
                if okr:
                    e = strip(kids(rr[0])[0])
                    if cv(e) is not None:
                        okr = cv(e) != 0
                        why = "returns %s" % cv(e)
                    elif e["k"] == "CXXMemberCallExpr" and e.get("callee") == "mp::Error::exit_code":
                        why = "returns e.exit_code() (non-zero by P2)"
                    else:
                        okr = False
                        why = "returns `%s`" % render(e)
                p1.check(bool(pr) and okr, "RunBackendApp|handler|%s" % tn, short_loc(h.get("l")),
                         "the %s handler prints to stderr and %s" % (tn, why), "the %s handler %s stderr and %s" % (tn, "prints to" if pr else "does not print to", why))

    # ---- P2 ---------------------------------------------------------------------------
    p2 = rep.rule("C09.P2", "RANGE", "solve-result class of reported errors; error codes at throw sites", floor=6)
    run_ = one("mp::BackendApp::Run")
    run_error_codes(p2, F, run_)
    for f in [g for g in funcs if g.qn == "mp::Error::Error"]:
        init = [i for i in f.d.get("inits", []) if i.get("name") == "exit_code_"]
        key = "Error-ctor|%s" % (f.full.split("Error::Error")[-1][:40] or "()") + "|" + ",".join((p.get("t") or "")[:12] for p in f.params)
        if not init or not kids(init[0]):
            p2.fail(key, short_loc(f.loc), "constructor does not initialise exit_code_")
            continue
        e = strip(kids(init[0])[0]) if kids(init[0])[0]["k"] != "CXXDefaultInitExpr" else kids(init[0])[0]
        if e["k"] == "CXXDefaultInitExpr":
            p2.check(cv(e) is not None and cv(e) < 0, key, short_loc(f.loc), "exit_code_ defaults to %s (unspecified -> sol::FAILURE)" % cv(e),
                     "exit_code_ defaults to %s: an error without an explicit code is reported with solve result %s, which is not a failure code"
                     % (cv(e), cv(e)))
        elif e["k"] == "DeclRefExpr":
            p2.ok(key, short_loc(f.loc), "exit_code_ is the constructor argument `%s`" % e.get("name"))
        else:
            p2.check(cv(e) is not None and (cv(e) < 0 or in_class(cv(e))), key, short_loc(f.loc), "exit_code_ = %s" % render(e))
    # explicit codes at throw sites (all units' call graphs)
    nsites = 0
    SCAN = [CU, BU, MM, MU, "solvers/visitor/visitormodelapi.cc", "src/solver.cc", "src/nl-reader.cc", "src/problem.cc", "src/expr.cc",
            "src/sp.cc", "src/option.cc", "src/os.cc", "src/sol.cc", "src/std_constr.cc", "src/utils_file.cc", "src/utils_string.cc"]
    cgs = export_many([dict(unit=u, callgraph=True, repo=repo) for u in SCAN])
    rep.note_units(SCAN)
    fjobs = []
    for U, d0 in zip(SCAN, cgs):
        thrower_qns = sorted({f_["qn"] for f_ in d0["callgraph"] for c in f_["callees"] if c.startswith("throw:mp::Error\t")})
        if thrower_qns:
            fjobs.append(dict(unit=U, fn=[rx(q) for q in thrower_qns], repo=repo))
    seen_sites = set()
    for d in export_many(fjobs):
        for f in Facts([d]).funcs:
            if f.is_dependent():
                continue
            for t in f.walk():
                if t["k"] != "CXXThrowExpr" or not kids(t):
                    continue
                if (f.qn, t.get("l")) in seen_sites:
                    continue
                seen_sites.add((f.qn, t.get("l")))
                ce = [x for x in walk(kids(t)[0]) if x["k"] in ("CXXConstructExpr", "CXXTemporaryObjectExpr") and x.get("callee") == "mp::Error::Error"]
                if not ce:
                    continue
                args = kids(ce[0])
                lits_all = [x.get("v") or "" for x in walk(kids(t)[0]) if x["k"] == "StringLiteral"]
                says_infeasible = any("infeasible" in v.lower() for v in lits_all)
                explicit = len(args) == 2 and strip(args[1])["k"] != "CXXDefaultArgExpr" and (ce[0].get("calleeId") or "").endswith("Ei")
                if says_infeasible:
                    code = cv(args[1]) if explicit else None
                    p2.check(code is not None and 200 <= code <= 299, "infeasible-wording|%s|%s" % (f.qn.replace("mp::", ""), short_loc(t.get("l")).split(":")[-1]),
                             short_loc(t.get("l")), "an error that says the model is infeasible carries code %s" % code,
                             "the error message %r reports infeasibility but the error carries %s: the run ends with a solve result outside "
                             "200-299" % ([v for v in lits_all if "infeasible" in v.lower()][0][:60],
                                          ("code %s" % code) if explicit else "no code (reported as failure 500)"))
                if not explicit:
                    continue
                a1 = args[1]
                if "int" not in (strip(a1).get("ct") or ""):
                    continue
                nsites += 1
                key = "throw|%s|%s" % (f.qn.replace("mp::", ""), short_loc(t.get("l")).split(":")[-1])
                lit0 = [x for x in walk(args[0]) if x["k"] == "StringLiteral"]
                if cv(a1) is not None and any("{" in (x.get("v") or "") for x in lit0):
                    p2.fail(key, short_loc(t.get("l")), "the message literal %r has a format placeholder but the constant %s is taken as the exit code"
                            % (lit0[0].get("v"), cv(a1)))
                elif cv(a1) is not None:
                    p2.check(in_class(cv(a1)), key, short_loc(t.get("l")), "throws mp::Error with code %s" % cv(a1),
                             "throws mp::Error with code %s, outside the solution-check/infeasible/failure classes" % cv(a1))
                else:
                    isparam = (strip(a1)["k"] == "DeclRefExpr" and strip(a1).get("dk") in ("Parm", "ParmVar")) or \
                        (strip(a1)["k"] == "CXXMemberCallExpr" and strip(a1).get("callee") == "mp::Error::exit_code" and
                         f.enclosing(t, ("CXXCatchStmt",)) is not None)      # the code of the error being re-wrapped
                    m0 = args[0]
                    lit = [x for x in walk(m0) if x["k"] == "StringLiteral"]
                    trap = any("{" in (x.get("v") or "") for x in lit)
                    p2.check(isparam and not trap, key, short_loc(t.get("l")), "forwards the caller's code `%s`" % render(a1),
                             ("the message literal %r has a format placeholder but `%s` is taken as the exit code by Error(message, code): "
                              "the error is reported with that number as solve result" % (lit[0].get("v"), render(a1))) if trap else
                             "throws mp::Error with the non-constant code `%s`" % render(a1))
    rep.extra["explicit_code_throw_sites"] = nsites
    # re-wrapping handlers: a handler that builds a new mp::Error from a caught exception's text must keep an mp::Error's code
    wjobs = []
    for U_, d0 in zip(SCAN, cgs):
        qs = sorted({f_["qn"] for f_ in d0["callgraph"] if any(c.split("\t")[1] in ("std::exception::what", "std::runtime_error::what") for c in f_["callees"])
                     and any(c.startswith("throw:mp::Error\t") for c in f_["callees"])})
        if qs:
            wjobs.append(dict(unit=U_, fn=[rx(q) for q in qs], repo=repo))
    seen_w = set()
    nwrap = 0
    for d in export_many(wjobs):
        for f in Facts([d]).funcs:
            if f.is_dependent():
                continue
            for tr_ in [n for n in f.walk() if n["k"] == "CXXTryStmt"]:
                hs = catches(tr_)
                for ct, h in hs:
                    base = ct.replace("const ", "").replace("&", "").strip()
                    if base != "std::exception":
                        continue
                    th = [x for x in walk(h) if x["k"] == "CXXThrowExpr" and kids(x) and
                          any(y.get("callee") == "mp::Error::Error" for y in walk(x)) and any(y.get("callee", "").endswith("::what") for y in walk(x))]
                    if not th:
                        continue
                    key = "rewrap|%s|%s" % (f.qn.replace("mp::", ""), short_loc(h.get("l")).split(":")[-1])
                    if key in seen_w:
                        continue
                    seen_w.add(key)
                    nwrap += 1
                    keep = False
                    for ct2, h2 in hs:
                        if ct2.replace("const ", "").replace("&", "").strip() == "mp::Error" and hs.index((ct2, h2)) < hs.index((ct, h)):
                            for x in walk(h2):
                                if x["k"] == "CXXThrowExpr" and kids(x):
                                    ce2 = [y for y in walk(x) if y["k"] in ("CXXConstructExpr", "CXXTemporaryObjectExpr") and y.get("callee") == "mp::Error::Error"]
                                    if ce2 and len(kids(ce2[0])) == 2 and strip(kids(ce2[0])[1]).get("callee") == "mp::Error::exit_code":
                                        keep = True
                                if x["k"] == "CXXThrowExpr" and not kids(x):
                                    keep = True         # plain rethrow
                    p2.check(keep, key, short_loc(h.get("l")), "%s re-wraps exceptions but keeps the code of an mp::Error (separate handler)" % f.qn.split("::")[-1],
                             "%s catches std::exception and throws a new mp::Error from its text: the code of a caught mp::Error (e.g. 200 for an "
                             "infeasible model) is lost and the run is reported as a generic failure" % f.qn)
    rep.extra["rewrap_handlers"] = nwrap

    # ---- E1 ---------------------------------------------------------------------------
    e1 = rep.rule("C09.E1", "WHO", "exception types not derived from std::exception do not escape the converter", floor=2)
    cg = export(CU, callgraph=True, repo=repo)["callgraph"]
    callers_id, callers_qn, qn_of = {}, {}, {}
    nonstd = {}
    for f_ in cg:
        qn_of[f_["id"]] = f_["qn"]
        for c in f_["callees"]:
            p = c.split("\t")
            if p[0].startswith("throw:"):
                if len(p) > 2 and p[2] == "throw-nonstd" and p[1]:
                    nonstd.setdefault(p[1], set()).add(f_["id"])
                continue
            callers_id.setdefault(p[0], set()).add(f_["id"])
            callers_qn.setdefault(p[1], set()).add(f_["id"])
    e1.check(True, "nonstd-types", "", "exception types not derived from std::exception thrown in the converter unit: %s" % sorted(nonstd))
    fcache = {}

    def load(ids):
        need = sorted({qn_of[i] for i in ids if i not in fcache and i in qn_of})
        if not need:
            return
        d = export(CU, fn=[rx(q) for q in need], repo=repo)
        for g in Facts([d]).funcs:
            if not g.is_dependent():
                fcache[g.id] = g
    for exc, throwers in sorted(nonstd.items()):
        short = exc.split("::")[-1]
        T = set(throwers)
        stoppers = {}
        work = set(T)
        rounds = 0
        while work:
            rounds += 1
            if rounds > 60:
                raise AnalysisBroken("C09.E1: closure does not converge")
            load(work)
            edges = []
            for g in work:
                for c in callers_id.get(g, set()):
                    edges.append((c, g, "id"))
                fg = fcache.get(g)
                if fg is not None:
                    for b in fg.d.get("overrides", []) or []:
                        for c in callers_qn.get(b, set()):
                            edges.append((c, g, b))
            load({c for c, _, _ in edges})
            nxt = set()
            for c, g, how in edges:
                if c in T:
                    continue
                f = fcache.get(c)
                if f is None:
                    T.add(c); nxt.add(c)
                    continue
                esc = False
                for n in f.walk():
                    if n["k"] not in ("CXXMemberCallExpr", "CallExpr", "CXXOperatorCallExpr", "CXXConstructExpr", "CXXTemporaryObjectExpr"):
                        continue
                    hit = (n.get("calleeId") == g) if how == "id" else (n.get("callee") == how)
                    if not hit:
                        continue
                    caught = False
                    for t in [a for a in f.ancestors(n) if a["k"] == "CXXTryStmt"]:
                        if not any(x["i"] == n["i"] for x in walk(t["c"][0])):
                            continue
                        for ct, h in catches(t):
                            if ct == "" or short in ct:
                                caught = True
                                stoppers.setdefault(c, []).append(h)
                    if not caught:
                        esc = True
                if esc:
                    T.add(c); nxt.add(c)
            work = nxt
        roots = sorted({qn_of[i] for i in T if not callers_id.get(i) and
                        not any(callers_qn.get(b) for b in ((fcache[i].d.get("overrides") or []) if i in fcache else []))})
        # entry points of the conversion that the driver calls
        boundary = sorted({qn_of[i] for i in T} & {"mp::FlatConverter::ConvertModel", "mp::FlatConverter::FinishModelInput",
                                                   "mp::ProblemFlattener::ConvertModel", "mp::FlatConverter::ConvertItems"})
        e1.check(not roots and not boundary, "escape|%s" % short, "", "%s is caught inside the converter: may-throw set %d functions, stopped by %s"
                 % (short, len(T), sorted({qn_of[i].replace("mp::", "") for i in stoppers if i not in T})),
                 "%s (not derived from std::exception) can leave %s uncaught: the driver's handlers do not match it and the process "
                 "terminates" % (short, (roots + boundary)[:3]))
        for c, hs in sorted(stoppers.items()):
            if c in T:
                continue
            for h in hs[:1]:
                th = [x for x in walk(h) if x["k"] == "CXXThrowExpr"]
                swallow_ok = qn_of[c].endswith("ConvertAllFrom")
                okh = bool(th) and any(x.get("callee") == "mp::Error::Error" for t_ in th for x in walk(t_))
                e1.check(okh or swallow_ok, "converted|%s|%s" % (short, qn_of[c].replace("mp::", "")), short_loc(h.get("l")),
                         "the handler in %s %s" % (qn_of[c], "rethrows an mp::Error" if okh else "records a warning (accepted-but-not-recommended level)"),
                         "the handler in %s swallows the failure" % qn_of[c])
        rep.extra["may_throw_%s" % short] = len(T)

    # ---- P3 ---------------------------------------------------------------------------
    p3 = rep.rule("C09.P3", "PATH", "the solution handler exists before options are parsed or the header processed", floor=4)
    lam = [f for f in funcs if "ReadNLModel" in f.qn and ("lambda" in f.qn or f.d.get("isLambda"))]
    if not lam:
        raise AnalysisBroken("header callback of ReadNLModel not found")
    L = lam[0]
    mk = [c for c in L.walk() if c["k"] == "CXXMemberCallExpr" and c.get("callee", "").endswith("::MakeProperSolutionHandler")]
    ah = [c for c in L.walk() if c["k"] == "CXXOperatorCallExpr" and c.get("op") == "()" and "after_header" in render(c)]
    p3.check(len(mk) == 1 and len(ah) == 1 and L.cfg.dominates(mk[0], ah[0]) and not [c for c in L.cfg.facts_at(mk[0])], "callback-order",
             short_loc(L.loc), "the header callback creates the solution handler unconditionally, then parses the options")
    oh = one("mp::internal::SolverNLHandlerImpl::OnHeader")
    cb = [c for c in oh.walk() if c["k"] == "CXXOperatorCallExpr" and c.get("op") == "()" and "after_header_" in render(c)]
    if len(cb) != 1:
        raise AnalysisBroken("after_header_() call not found in OnHeader")
    later = [n for n in oh.walk() if (n["k"] == "CXXThrowExpr" or (n["k"] == "CXXMemberCallExpr" and n.get("callee", "").endswith("NLProblemBuilder::OnHeader")))]
    guard = oh.enclosing(cb[0], ("IfStmt",))
    gnode = kids(guard)[0] if guard is not None and "after_header_" in render(kids(guard)[0]) else cb[0]
    p3.check(bool(later) and all(oh.cfg.dominates(gnode, n) for n in later) and all(not oh.cfg.before(n, cb[0]) for n in later),
             "OnHeader-order", short_loc(oh.loc), "the callback runs before the objno check and before the problem is sized")
    before = [c for c in oh.walk() if c["k"] in ("CXXMemberCallExpr", "CallExpr") and oh.cfg.before(c, cb[0]) and not oh.cfg.before(cb[0], c)
              and c["i"] != cb[0]["i"] and not any(x["i"] == c["i"] for x in walk(cb[0]))]
    names = sorted({c.get("callee", "").split("::")[-1] for c in before})
    p3.check(set(names) <= {"copy", "notify_start_opts", "operator bool", "__copy_move_a", "function"}, "OnHeader-nothing-fails-before",
             short_loc(oh.loc), "before the callback only the options are copied (%s)" % names, "calls before the callback: %s" % names)
    hs = one("mp::ModelManagerWithProblemBuilder::HandleSolution")
    th = [n for n in hs.walk() if n["k"] == "CXXThrowExpr"]
    okh = len(th) == 1 and any(render(hs.nodes[cid]) == "HaveSolH()" and pol is False for cid, pol in hs.cfg.facts_at(th[0])) and \
        any(x.get("callee", "").startswith("std::runtime_error") for x in walk(th[0]))
    p3.check(okh, "no-handler-throws", short_loc(hs.loc), "without a solution handler the message is thrown as std::runtime_error (-> stderr, non-zero)")
    re_ = one("mp::BackendWithModelManager::ReportError")
    hc = [c for c in re_.walk() if c["k"] == "CXXMemberCallExpr" and c.get("callee", "").endswith("::HandleSolution")]
    okre = len(hc) == 1 and strip(call_args(hc[0])[0]).get("declId") == re_.params[0]["declId"] and \
        [cv(a) for a in call_args(hc[0])[2:4]] == [0, 0] and re_.params[1]["name"] in render(call_args(hc[0])[1])
    p3.check(okre, "ReportError-forwards", short_loc(re_.loc), "ReportError passes the code and the message on, with absent vectors")

    # ---- G1 ---------------------------------------------------------------------------
    g1 = rep.rule("C09.G1", "FLOW", "the .sol dimensions are the NL problem's own counts", floor=4)
    hsw = one("mp::SolutionWriterImpl::HandleSolution")
    ad = [n for n in hsw.walk() if n["k"] == "VarDecl" and "SolutionAdapter" in (n.get("t") or "")]
    # the adapter's construction, in the handler or in a helper that builds it (arguments read in the handler's terms)
    adc = [(c_, r_) for a_, c_, r_, o_ in reach_calls(F, hsw, lambda n: n["k"] in ("CXXConstructExpr", "CXXTemporaryObjectExpr") and
                                                       (n.get("callee") or "").endswith("SolutionAdapter::SolutionAdapter") and len(kids(n)) >= 5, depth=1)]
    if len(ad) != 1 or len(adc) != 1:
        raise AnalysisBroken("SolutionAdapter construction not found")
    cargs = [render(adc[0][1](a)).replace(" ", "").replace("this->", "") for a in kids(adc[0][0])]
    g1.check(any("values?builder_.num_vars():0" in a for a in cargs), "primal-size", short_loc(ad[0].get("l")),
             "primal vector: builder_.num_vars() values or none", str(cargs))
    g1.check(any("dual_values?builder_.num_algebraic_cons():0" in a for a in cargs), "dual-size", short_loc(ad[0].get("l")),
             "dual vector: builder_.num_algebraic_cons() values or none", str(cargs))
    g1.check("&builder_" in cargs, "adapter-uses-builder", short_loc(ad[0].get("l")), "the adapter reads the counts from the same problem builder")
    for nm, want in (("num_vars", "builder_->num_vars()"), ("num_algebraic_cons", "builder_->num_algebraic_cons()")):
        g = one("mp::SolutionAdapter::" + nm)
        r = [x for x in g.walk() if x["k"] == "ReturnStmt"]
        g1.check(len(r) == 1 and render(kids(r[0])[0]).replace(" ", "") == want, "adapter|%s" % nm, short_loc(g.loc), "%s() = %s" % (nm, want))

    # ---- N1: absent vectors of a failure report are never dereferenced -------------------------------
    n1 = rep.rule("C09.N1", "GUARD", "a failure is reported with absent (null) value vectors: every function that receives them reads them only under a null test", floor=1)
    extra = export_many([dict(unit="src/solver.cc", fn=[r"mp::internal::PrintSolution"], repo=repo),
                         dict(unit=MU, fn=[r"mp::internal::AppSolutionHandlerImpl::HandleSolution", r"mp::internal::SolutionWriterImpl::HandleSolution"], repo=repo)])
    Fx = Facts(extra)
    cons = [g for g in Fx.funcs if not g.is_dependent() and g.cfg is not None and g.qn in ("mp::internal::PrintSolution", "mp::internal::AppSolutionHandlerImpl::HandleSolution", "mp::internal::SolutionWriterImpl::HandleSolution")]
    seen_q = set()
    for g in cons:
        if g.qn in seen_q:
            continue
        seen_q.add(g.qn)
        ptrs = [p_ for p_ in g.params if (p_.get("ct") or "").replace(" ", "") == "constdouble*"]
        for p_ in ptrs:
            uses = []
            for n in g.walk():
                if n["k"] in ("ArraySubscriptExpr",) and strip(kids(n)[0]).get("declId") == p_["declId"]:
                    uses.append(n)
                if n["k"] == "UnaryOperator" and n.get("op") == "*" and strip(kids(n)[0]).get("declId") == p_["declId"]:
                    uses.append(n)
            bad = None
            for u in uses:
                fa = []

                def add(c, pol):
                    c = strip(c)
                    while c["k"] == "UnaryOperator" and c.get("op") == "!":
                        pol = not pol
                        c = strip(kids(c)[0])
                    if c["k"] == "BinaryOperator" and ((c.get("op") == "&&" and pol) or (c.get("op") == "||" and not pol)):
                        add(kids(c)[0], pol); add(kids(c)[1], pol)
                        return
                    fa.append((c, pol))
                for cid, pol in g.cfg.facts_at(u):
                    add(g.nodes[cid], pol)
                nonnull = any(strip(c).get("declId") == p_["declId"] and pol is True for c, pol in fa if strip(c)["k"] == "DeclRefExpr") or \
                    any(c["k"] == "BinaryOperator" and c.get("op") in ("!=", "==") and ((c.get("op") == "!=") == bool(pol)) and
                        ((strip(kids(c)[0]).get("declId") == p_["declId"] and (cv(kids(c)[1]) == 0 or "nullptr" in render(kids(c)[1]))) or
                         (strip(kids(c)[1]).get("declId") == p_["declId"] and (cv(kids(c)[0]) == 0 or "nullptr" in render(kids(c)[0])))) for c, pol in fa)
                if not nonnull:
                    bad = u
            n1.check(bad is None, "%s|%s" % (g.qn.split("::")[-1] if g.qn.endswith("PrintSolution") else g.qn.split("::")[-2] + "::HandleSolution", p_["name"]), short_loc(g.loc),
                     "%s reads %s (%d uses) only where it is known to be non-null" % (g.qn.split("::")[-1], p_["name"], len(uses)),
                     "%s dereferences `%s` at %s on a path where it may be null: a failure reported with absent vectors (ReportError -> HandleSolution(code, msg, 0, 0, 0)) crashes instead of ending with a diagnostic" %
                     (g.qn.split("::")[-1], p_["name"], short_loc(bad.get("l")) if bad else ""))

    # ---- P4 ---------------------------------------------------------------------------
    p4 = rep.rule("C09.P4", "PATH", "output-path faults are reported: explicit close (throws) on every normal exit, open failure throws", floor=3)
    w = one("mp::WriteSolFile")
    fv = [v for v in w.walk() if v["k"] == "VarDecl" and "BufferedFile" in (v.get("ct") or "")]
    cl = [c for c in w.walk() if c["k"] == "CXXMemberCallExpr" and c.get("callee") == "fmt::BufferedFile::close" and fv and
          strip(call_object(c)).get("declId") == fv[0]["declId"]]
    okc = len(fv) == 1 and len(cl) >= 1 and w.cfg.path_avoiding(None, "exit", [c["i"] for c in cl], from_entry=True) is None
    p4.check(okc, "close-on-every-exit", short_loc(w.loc), "every normal exit of WriteSolFile passes through file.close()",
             "WriteSolFile can return without file.close(): a failed write (full disk) is only warned about in the destructor, the "
             "driver exits 0 with a truncated .sol")
    last_print = [c for c in w.walk() if c["k"] in ("CXXMemberCallExpr", "CallExpr") and c.get("callee", "").split("::")[-1] in ("print", "WriteSuffixes", "WriteMessage")]
    p4.check(bool(cl) and all(not w.cfg.before(cl[0], c) for c in last_print), "close-after-last-write", short_loc(w.loc),
             "nothing is written after the close")
    bc = [f for f in funcs if f.qn == "fmt::BufferedFile::close"]
    if not bc:
        raise AnalysisBroken("fmt::BufferedFile::close not found")
    th = [n for n in bc[0].walk() if n["k"] == "CXXThrowExpr"]
    okt = len(th) == 1 and any(render(bc[0].nodes[cid]).replace(" ", "") == "result!=0" and pol is True for cid, pol in bc[0].cfg.facts_at(th[0])) and \
        any(v["k"] == "VarDecl" and v.get("name") == "result" and "fclose" in render(v) for v in bc[0].walk())
    p4.check(okt, "close-throws", short_loc(bc[0].loc), "BufferedFile::close throws when fclose fails")
    ctor = [f for f in funcs if f.qn == "fmt::BufferedFile::BufferedFile" and len(f.params) == 2 and any(n["k"] == "CXXThrowExpr" for n in f.walk())]
    p4.check(bool(ctor), "open-throws", short_loc(ctor[0].loc) if ctor else "", "BufferedFile(filename, mode) throws when the file cannot be opened")

    # ---- M1 ---------------------------------------------------------------------------
    m1 = rep.rule("C09.M1", "GUARD", "suffix values written while reporting a solution stay inside the suffix (e.g. objective suffixes of a "
                  "model without objectives)", floor=2)
    sh = [f for f in funcs if f.qn == "mp::BasicProblem::SuffixHandler::SetValue"]
    if not sh:
        raise AnalysisBroken("BasicProblem::SuffixHandler::SetValue not found")
    seen_m = set()
    for f in sh:
        k = "SetValue|%s" % f.full.split("SuffixHandler<")[-1][:20]
        if k in seen_m:
            continue
        seen_m.add(k)
        st = [c for c in f.walk() if c["k"] == "CXXMemberCallExpr" and c.get("callee", "").endswith("::set_value")]
        ok = len(st) == 1
        if ok:
            fa = []
            for cid, pol in f.cfg.facts_at(st[0]):
                stack = [strip(f.nodes[cid])]
                while stack:
                    x = stack.pop()
                    if pol is True and x["k"] == "BinaryOperator" and x.get("op") == "&&":
                        stack.extend(strip(y) for y in kids(x))
                    else:
                        fa.append((render(x).replace(" ", ""), pol))
            idx = f.params[0]["name"]
            ok = any(t in ("%s<suffix_.num_values()" % idx,) and pol is True for t, pol in fa) and \
                any(t in ("%s>=0" % idx,) and pol is True for t, pol in fa)
        m1.check(ok, k, short_loc(f.loc), "SetValue writes only when 0 <= index < num_values()",
                 "SetValue(index, v) writes int_values[index] unchecked: HandleSolution sets item 0 of the objective suffixes nsol/npool, "
                 "which have no item when the model has no objective (null array: crash)")
    hsw2 = one("mp::SolutionWriterImpl::HandleSolution")
    sv = [c for c in hsw2.walk() if c["k"] == "CXXMemberCallExpr" and c.get("callee", "").endswith("SuffixHandler::SetValue")]
    m1.check(all(cv(call_args(c)[0]) == 0 for c in sv), "HandleSolution|index-0", short_loc(hsw2.loc),
             "HandleSolution only sets item 0 of the %d suffixes it creates" % len(sv))

    # ---- U1 ---------------------------------------------------------------------------
    u1 = rep.rule("C09.U1", "DISPATCH", "unsupported constructs raise UnsupportedError unconditionally", floor=1)
    vu = [f for f in funcs if f.qn == "mp::BasicExprVisitor::VisitUnsupported"]
    if not vu:
        raise AnalysisBroken("BasicExprVisitor::VisitUnsupported not found")
    seen = set()
    for f in vu:
        th = [n for n in f.walk() if n["k"] == "CXXThrowExpr"]
        ok = len(th) == 1 and not f.cfg.facts_at(th[0]) and "UnsupportedError" in (strip(kids(th[0])[0]).get("ct") or render(th[0])) and \
            f.cfg.path_avoiding(None, "exit", [th[0]["i"]], from_entry=True) is None
        k = "VisitUnsupported|%s" % f.full.split("BasicExprVisitor<")[-1][:50]
        if k in seen:
            continue
        seen.add(k)
        u1.check(ok, k, short_loc(f.loc), "VisitUnsupported throws UnsupportedError on every path")
    # ---- W1: which invocation modes get a .sol file ---------------------------------------------------------
    # AppSolutionHandlerImpl::HandleSolution is evaluated for -AMPL on/off x wantsol 0..15 (documented bits: 1 write the
    # .sol file, 2 print the primal, 4 print the dual values, 8 suppress the solve message)
    w1 = rep.rule("C09.W1", "TABLE", "the application's solution handler writes the .sol file iff -AMPL is given or bit 1 of wantsol is set, and without -AMPL "
                  "prints the message unless bit 8 is set (evaluation over -AMPL x wantsol 0..15)", floor=2)
    Fw = Facts(export_many([dict(unit=MM, fn=[r"mp::internal::AppSolutionHandlerImpl::HandleSolution"], closure=1,
                            closure_roots=r"AppSolutionHandlerImpl::HandleSolution$", repo=repo)]))
    hs = [g for g in Fw.funcs if not g.is_dependent() and g.cfg is not None and g.qn == "mp::internal::AppSolutionHandlerImpl::HandleSolution"]
    if not hs:
        raise AnalysisBroken("C09.W1: AppSolutionHandlerImpl::HandleSolution not found")
    H = sorted(hs, key=lambda g: g.full)[0]
    bad_sol, bad_out, ncase, box_w = [], [], 0, {}
    for ampl_ in (0, 1):
        for ws_ in range(16):
            ev_ = []

            def atom_w(t_, n_, env_, ampl_=ampl_, ws_=ws_, ev_=ev_):
                if n_["k"] in ("CXXMemberCallExpr", "CallExpr", "CXXOperatorCallExpr"):
                    cn = (n_.get("callee") or "").split("::")[-1]
                    if cn == "wantsol":
                        return ws_
                    if cn == "ampl_flag":
                        return ampl_
                    if cn == "HandleSolution":
                        ev_.append("sol")
                        return 0
                    if cn == "Print":
                        ev_.append("msg")
                        return 0
                    if cn == "PrintSolution":
                        try:
                            a0 = box_w["mi"].expr(call_args(n_)[0], env_, 0)     # the vector printed: the handler's values (111) or dual values (222)
                        except AnalysisBroken:
                            a0 = None
                        for _ in range(4):           # a pointer handed on to a helper arrives as an opaque (expression, caller's environment) pair
                            if isinstance(a0, tuple) and len(a0) == 3 and a0[0] == "obj" and a0[1] is not None:
                                try:
                                    a0 = box_w["mi"].expr(a0[1], a0[2], 0)
                                except AnalysisBroken:
                                    a0 = None
                        ev_.append({111: "primal", 222: "dual"}.get(a0 if isinstance(a0, int) else None, "other"))
                        return 0
                    if cn in ("operator<<", "HandleOutput", "c_str", "output_handler", "num_vars", "num_algebraic_cons", "stub", "builder", "pad", "solver"):
                        return 0
                if n_["k"] == "MemberExpr":
                    return 0
                return None
            mi = MiniInt(Fw, atom_w)
            mi.select_only = True
            box_w["mi"] = mi
            try:
                mi.call(H, [0, 0, 111, 222, 0])
            except AnalysisBroken as e_:
                if "without a return" not in str(e_):
                    raise AnalysisBroken("C09.W1: HandleSolution: %s" % e_)
            ncase += 1
            if (ev_.count("sol") == 1) != bool(ampl_ or ws_ & 1) or ev_.count("sol") > 1:
                bad_sol.append("%s wantsol=%d: .sol %s" % ("-AMPL" if ampl_ else "stand-alone", ws_, "written" if "sol" in ev_ else "not written"))
            want_out = [] if ampl_ else ([x for x, b in (("msg", not ws_ & 8), ("primal", ws_ & 2), ("dual", ws_ & 4)) if b])
            if [x for x in ev_ if x != "sol"] != want_out:
                bad_out.append("%s wantsol=%d: prints %s, expected %s" % ("-AMPL" if ampl_ else "stand-alone", ws_, [x for x in ev_ if x != "sol"], want_out))
    w1.check(not bad_sol, "sol-file-modes", _short_loc(H.loc), "%d cases: the .sol file is written iff -AMPL or wantsol&1" % ncase,
             "%s - the run ends with exit status 0 and neither a .sol file nor a message on stderr" % "; ".join(bad_sol[:3]))
    w1.check(not bad_out, "stdout-modes", _short_loc(H.loc), "%d cases: message unless wantsol&8, primal iff wantsol&2, dual iff wantsol&4, nothing under -AMPL" % ncase,
             "; ".join(bad_out[:3]))
    # ---- B1: an infinite body bound of an indicator needs a usable big-M, otherwise the conversion fails with a diagnosis ------
    b1 = rep.rule("C09.B1", "GUARD", "indicator linearisation with an unbounded body: the default big-M replaces the bound iff it is positive; otherwise "
                  "the conversion raises ConstraintConversionFailure (reported as a failure, not a model with an invented bound)", floor=2)
    Fi = Facts(export_many([dict(unit="solvers/visitor/visitor-modelapi-connect.cc",
                                 fn=[r"mp::IndicatorLin(GE|LE)Converter_MIP::ConvertImplication(GE|LE)"], repo=repo)]))
    for nm_, sgn_ in (("ConvertImplicationGE", -1.0), ("ConvertImplicationLE", 1.0)):
        gs = [g for g in Fi.funcs if g.name == nm_ and not g.is_dependent() and g.cfg is not None]
        if not gs:
            raise AnalysisBroken("C09.B1: %s not found" % nm_)
        g = gs[0]
        bad = []
        for M_ in (-1.0, 0.0, 1e6):
            rec_, box = [], {}

            def atom(t_, n_, env_, M_=M_):
                if n_["k"] in ("CXXMemberCallExpr", "CallExpr"):
                    cn_ = (n_.get("callee") or "").split("::")[-1]
                    if cn_ == "bigMDefault":
                        return M_
                    if cn_ == "PracticallyMinusInf":
                        return -1e20
                    if cn_ == "PracticallyInf":
                        return 1e20
                    if cn_ == "rhs":
                        return 3.0
                    if cn_ in ("AddConstraint", "sort_terms", "add_term", "negate", "set_rhs", "GetBody"):
                        rec_.append(cn_)
                        return 0
                return None
            mi = MiniInt(Fi, atom)
            mi.select_only = True         # declarations of constraint objects stay opaque
            box["mi"] = mi
            thrown = False
            try:
                mi.call(g, [1, 1, sgn_ * 1e300, ("obj", None, None)])
            except CaseThrow:
                thrown = True
            except AnalysisBroken as e_:
                if "without a return" not in str(e_):
                    raise AnalysisBroken("C09.B1: %s: %s" % (nm_, e_))
            if thrown != (M_ <= 0.0):
                bad.append((M_, "throws" if thrown else "goes on"))
        b1.check(not bad, "indicator-inf-bound|%s" % nm_, short_loc(g.loc), "%s: with an infinite body bound the conversion fails iff the default big-M is not positive" % nm_,
                 "%s: (default big-M, outcome) = %s - the run ends without a diagnosis although a bound was invented (or is rejected although big-M is set)" % (nm_, bad))
    return rep
