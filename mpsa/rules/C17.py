"""C17 - checked integer arithmetic is exact or raises overflow, never wraps.

A1: the bodies of operator+,-,* on SafeInt<T>, SafeAbs and the converting
constructor are loop-free; each instantiation (all integer widths and
signedness, produced by tool/stubs/safeint_inst.cc from the repository's
header) is interpreted abstractly over *symbolic operands* in the
linear-relational domain (mpsa/linrel.py, mpsa/absexec.py).  Obligations per
path: no undefined behaviour; return => value is the exact result and
representable; throw => exact result is not representable.
F1: sizes reaching allocations in expr.h/problem.h are SafeInt computations.
"""
from ..linrel import Lin, GE, LE, GT, LT, infeasible, entails
from ..absexec import AbsExec, State, type_range, int_type, witness, INT_TYPES
from ..cfg import Facts, kids, strip, walk, render, short_loc, call_args, cv
from ..facts import export, export_many, AnalysisBroken
from .. import units
import os

LEVEL = "proof"
TECHNIQUE = ("static analysis: abstract interpretation of the type-checked AST of every "
             "instantiation in a linear-relational domain (polyhedra with Fourier-Motzkin "
             "entailment, trace partitioning, McCormick relaxation + exact quotient lemma for "
             "the product), plus a type-resolved flow rule on allocation sizes")
LEVEL_TEXT = ("Operands are symbolic (all 2^64 x 2^64 pairs at once); every obligation is an "
              "entailment between linear constraints over integers decided by Fourier-Motzkin, "
              "so a discharged obligation holds for every operand pair of that type; a failing "
              "one is reported only with a concrete integer witness."
              "  Also decided (added after the seeded rounds): mixed-operand operators convert the plain operand through the range-checking constructor.")
LEVEL_NOTE = ("Trusted: clang 14 front end (types, promotions, conversions as explicit AST nodes), "
              "tool/mpx.cc, mpsa/linrel.py + absexec.py (about 600 lines), two's-complement "
              "widths of the LP64 target. The lemma X > floor(N/D) <=> X*D > N (D>=1, integers) "
              "is built into the domain.")
DESIGN_REF = "DESIGN.md section 4, C17"
EXPLANATION = (
    "Decides the statement for every instantiation over {signed, unsigned} x {8,16,32,64 bit}: "
    "for operator+, operator-, operator*, SafeAbs and the converting constructor (all 90 "
    "source/target pairs) every path of the abstractly interpreted body is classified as "
    "return or throw; return paths must entail result == exact and MIN<=exact<=MAX, throw "
    "paths must entail exact<MIN or exact>MAX, and no sub-expression may overflow a signed "
    "type or divide by zero; unsigned modular wrap inside the guards is modelled exactly "
    "(case split on the wrap count). Consequence clause: every size reaching an allocation "
    "in expr.h / problem.h from a count parameter is a SafeInt computation.")
ASSUMPTIONS = ["LP64 type widths; two's complement; integer conversions to a narrower signed "
               "type are modular (C++20 / all supported compilers)"]
TRUSTED = ["clang 14 front end", "tool/mpx.cc", "mpsa/linrel.py", "mpsa/absexec.py", "mpsa/rules/C17.py"]

TYPES = ["signed char", "short", "int", "long", "long long",
         "unsigned char", "unsigned short", "unsigned int", "unsigned long", "unsigned long long"]
OPS = {"operator+": "+", "operator-": "-", "operator*": "*"}


def tname_of(f, prefix):
    """'int' from 'mp::operator+<int>' etc."""
    full = f.full
    i = full.find("<")
    return full[i + 1:full.rfind(">")] if i >= 0 else None


def sign_cases(lo, hi):
    out = []
    if lo < 0:
        out.append((lo, -1))
    out.append((0, 0))
    if hi > 0:
        out.append((1, hi))
    return out


def fmt_w(w):
    return ", ".join("%s=%d" % (k, v) for k, v in sorted(w.items()) if k in ("a", "b", "v"))


def check_outcomes(rule, X, outs, st_vars, bounds, prods, exact, lo, hi, keybase, loc, what):
    """Obligations for one analysed case."""
    nobl = 0
    unw = []
    nfail0 = sum(1 for i in rule.instances if not i["ok"])
    for kind, bad, node, text in X.findings:
        w = witness(bad.cons, st_vars, bounds, prods)
        if w is None:
            unw.append(text)
            continue
        rule.fail("%s|no-UB" % keybase, short_loc(node.get("l")), "%s; witness %s" % (text, fmt_w(w)))
        nobl += 1
    X.findings = []
    for o in outs:
        if o.kind == "return":
            if o.value is None:
                raise AnalysisBroken("%s returns no value" % keybase)
            # (b) exact and representable
            probs = []
            unwit = []
            for c, t in ((LT(o.value, exact), "result < exact"), (GT(o.value, exact), "result > exact"),
                         (LT(exact, Lin.const(lo)), "exact result below MIN yet returned"),
                         (GT(exact, Lin.const(hi)), "exact result above MAX yet returned")):
                s2 = o.st.cons + [c]
                if not infeasible(s2):
                    w = witness(s2, st_vars, bounds, prods)
                    if w is None:
                        unwit.append(t)
                    else:
                        probs.append("%s (%s %s wraps/truncates silently)" % (t, what, fmt_w(w)))
            if unwit and not probs:
                raise AnalysisBroken("%s: %s not refuted, no integer witness found" % (keybase, unwit))
            ev = "; ".join(e[2] for e in o.st.events if e[0] in ("wrap", "narrow"))
            rule.check(not probs, "%s|return-exact" % keybase, loc,
                       "return path: value == exact result and MIN<=exact<=MAX entailed",
                       "; ".join(probs) + ((" [" + ev + "]") if ev else ""))
        elif o.kind == "throw":
            s2 = o.st.cons + [GE(exact, Lin.const(lo)), LE(exact, Lin.const(hi))]
            if infeasible(s2):
                rule.ok("%s|throw-iff" % keybase, loc, "throw path: exact result outside [MIN,MAX] entailed")
            else:
                w = witness(s2, st_vars, bounds, prods)
                if w is None:
                    raise AnalysisBroken("%s: spurious throw not refuted, no witness" % keybase)
                ev = "; ".join(e[2] for e in o.st.events if e[0] in ("wrap", "narrow"))
                rule.fail("%s|throw-iff" % keybase, loc,
                          "throws although the exact result is representable: %s %s%s" % (
                              what, fmt_w(w), (" [" + ev + "]") if ev else ""))
        nobl += 1
    if unw and sum(1 for i in rule.instances if not i["ok"]) == nfail0:
        raise AnalysisBroken("%s: %s not refuted but no integer witness found" % (keybase, unw[0]))
    return nobl


def merge(rule):
    """Several path cases of one function map to the same key: merge them so
    that one instance = one (function, type, obligation kind)."""
    by = {}
    order = []
    for i in rule.instances:
        k = i["key"]
        if k not in by:
            by[k] = dict(i, n=1)
            order.append(k)
        else:
            b = by[k]
            b["n"] += 1
            if not i["ok"]:
                if b["ok"]:
                    b.update(ok=False, detail=i["detail"], where=i["where"])
    rule.instances = []
    for k in order:
        b = by[k]
        n = b.pop("n")
        b["detail"] = ("%d path case(s): " % n) + b["detail"]
        rule.instances.append(b)


def run(rep, ctx):
    repo = ctx["repo"]
    drv = os.path.join(units.VERIF, "tool", "stubs", "safeint_inst.cc")
    d = export("safeint_inst.cc(driver over include/mp/safeint.h)", kind="fmt", path=drv, repo=repo,
               fn=[r"mp::operator[-+*]", r"mp::SafeAbs", r"mp::SafeInt::.*", r"mp::val",
                   r"fmt::internal::is_negative", r"fmt::internal::SignChecker::is_negative"])
    F = Facts([d])
    rep.note_units(["include/mp/safeint.h via tool/stubs/safeint_inst.cc"])
    rep.note_funcs(f for f in F.funcs if not f.is_dependent())
    paths = 0

    a1 = rep.rule("C17.A1", "RANGE",
                  "operator+,-,* on SafeInt<T>: no UB; return => exact and representable; "
                  "throw => exact not representable (all operand pairs, symbolic)", floor=56)
    for f in F.funcs:
        if f.is_dependent() or f.name not in OPS or len(f.params) != 2:
            continue
        T = tname_of(f, f.name)
        ty = int_type(T)
        if ty is None or not f.params[0]["t"].startswith("SafeInt<"):
            continue
        lo, hi = type_range(ty)
        op = OPS[f.name]
        keybase = "mp::%s|%s" % (f.name, T)
        loc = short_loc(f.loc)
        A, B = Lin.var("a"), Lin.var("b")
        bounds = {"a": (lo, hi), "b": (lo, hi)}
        cases = []
        if op == "*":
            for ca in sign_cases(lo, hi):
                for cb in sign_cases(lo, hi):
                    cases.append((ca, cb))
        else:
            cases.append(((lo, hi), (lo, hi)))
        for ca, cb in cases:
            X = AbsExec(F)
            cons = [GE(A, Lin.const(ca[0])), LE(A, Lin.const(ca[1])),
                    GE(B, Lin.const(cb[0])), LE(B, Lin.const(cb[1]))]
            prods = {}
            if op == "*":
                X.prod[("a", "b")] = "P"
                prods = {"P": ("a", "b")}
                cons += AbsExec.mccormick("P", "a", "b", ca, cb)
                exact = Lin.var("P")
            else:
                exact = A + B if op == "+" else A - B
            st = State(cons, {}, [], bounds)
            X.pending = []
            try:
                outs = X.run_function(f, [], st, 1, arg_values=[A, B])
                outs += X.take_pending()
                what = "SafeInt<%s>(a) %s b with" % (T, op)
                paths += check_outcomes(a1, X, outs, ["a", "b"], bounds, prods, exact, lo, hi,
                                        keybase, loc, what)
            except AnalysisBroken as e:
                rep.inconclusive.append("%s: %s" % (keybase, e))
    merge(a1)

    a2 = rep.rule("C17.A2", "RANGE",
                  "SafeAbs<T>(v) == |v| in the unsigned counterpart, no UB", floor=10)
    for f in F.funcs:
        if f.is_dependent() or f.name != "SafeAbs":
            continue
        T = tname_of(f, "SafeAbs")
        ty = int_type(T)
        if ty is None:
            continue
        lo, hi = type_range(ty)
        for (clo, chi) in sign_cases(lo, hi):
            X = AbsExec(F)
            V = Lin.var("v")
            st = State([GE(V, Lin.const(clo)), LE(V, Lin.const(chi))], {}, [], {"v": (lo, hi)})
            X.pending = []
            try:
                outs = X.run_function(f, [], st, 1, arg_values=[V]) + X.take_pending()
                exact = -V if chi < 0 else V
                ulo, uhi = type_range((False, ty[1]))
                paths += check_outcomes(a2, X, outs, ["v"], {"v": (lo, hi)}, {}, exact, ulo, uhi,
                                        "mp::SafeAbs|%s" % T, short_loc(f.loc), "SafeAbs<%s>(v) with" % T)
            except AnalysisBroken as e:
                rep.inconclusive.append("mp::SafeAbs|%s: %s" % (T, e))
    merge(a2)

    a3 = rep.rule("C17.A3", "RANGE",
                  "converting constructor SafeInt<T>(U v): returns with value_ == v iff v is "
                  "representable in T, otherwise throws (all 90 type pairs)", floor=90)
    for f in F.funcs:
        if f.is_dependent() or f.name != "SafeInt" or not f.d.get("ctor"):
            continue
        if "::SafeInt<" not in f.full.split(">::")[-1] and not f.full.endswith(">"):
            pass
        # template constructor instantiations look like mp::SafeInt<T>::SafeInt<U>
        rec = f.rec or ""
        T = rec[rec.find("<") + 1:rec.rfind(">")]
        tail = f.full[len(rec):]
        if "<" not in tail:
            continue      # the plain SafeInt(T) constructor: covered through A1
        U = tail[tail.find("<") + 1:tail.rfind(">")]
        tt, tu = int_type(T), int_type(U)
        if tt is None or tu is None:
            continue
        lo, hi = type_range(tt)
        ulo, uhi = type_range(tu)
        X = AbsExec(F)
        V = Lin.var("v")
        st = State([GE(V, Lin.const(ulo)), LE(V, Lin.const(uhi))], {}, [], {"v": (ulo, uhi)})
        X.pending = []
        try:
            outs = X.run_function(f, [], st, 1, arg_values=[V], ctor=True) + X.take_pending()
            paths += check_outcomes(a3, X, outs, ["v"], {"v": (ulo, uhi)}, {}, V, lo, hi,
                                    "mp::SafeInt::SafeInt|%s<-%s" % (T, U), short_loc(f.loc),
                                    "SafeInt<%s>((%s)v) with" % (T, U))
        except AnalysisBroken as e:
            rep.inconclusive.append("mp::SafeInt::SafeInt|%s<-%s: %s" % (T, U, e))
    merge(a3)
    rep.extra["paths_analysed"] = paths

    # ---- A4: mixed operands go through the checked constructor and the checked same-type operator --------------------
    a4 = rep.rule("C17.A4", "FLOW", "SafeInt<T> op U and U op SafeInt<T>: the plain operand is converted by the range-checking constructor "
                  "SafeInt<T>::SafeInt<U> (A3) - never by an implicit integer conversion - and the result is that of the checked "
                  "same-type operator (A1)", floor=60)
    for f in sorted([g for g in F.funcs if not g.is_dependent() and g.name in OPS and len(g.params) == 2], key=lambda g: g.full):
        kinds_ = [p["t"].startswith("SafeInt<") for p in f.params]
        if kinds_[0] == kinds_[1]:
            continue
        si, pi = (0, 1) if kinds_[0] else (1, 0)
        T = (f.params[si].get("ct") or "").replace("mp::SafeInt<", "").rstrip(">")
        U = f.params[pi].get("ct") or f.params[pi]["t"]
        pd = f.params[pi]["declId"]
        probs = []
        tt_, tu_ = int_type(T), int_type(U)
        widening = tt_ is not None and tu_ is not None and type_range(tt_)[0] <= type_range(tu_)[0] and type_range(tu_)[1] <= type_range(tt_)[1]
        uses = [n for n in f.walk() if n["k"] == "DeclRefExpr" and n.get("declId") == pd]
        if not uses:
            probs.append("the plain operand is not used")
        for u in uses:
            conv = None
            lossy = False
            for a in f.ancestors(u):
                if a["k"] == "ImplicitCastExpr" and a.get("ck") in ("IntegralCast", "IntegralToBoolean", "FloatingToIntegral", "IntegralToFloating"):
                    lossy = True
                if a["k"] in ("CXXConstructExpr", "CXXTemporaryObjectExpr") and (a.get("callee") or "") == "mp::SafeInt::SafeInt":
                    conv = a
                    break
                if a["k"] not in ("ImplicitCastExpr", "ParenExpr", "CXXFunctionalCastExpr", "MaterializeTemporaryExpr", "CXXBindTemporaryExpr", "ExprWithCleanups",
                                  "CStyleCastExpr", "CXXStaticCastExpr"):
                    break
            cf = (conv.get("calleeFull") or "") if conv is not None else ""
            via_template = cf.endswith("::SafeInt<%s>" % U)
            same_type = (U == T) and cf == "mp::SafeInt<%s>::SafeInt" % T
            if conv is None:
                probs.append("`%s` does not reach a SafeInt<%s> constructor" % (render(u), T))
            elif (lossy or not (via_template or same_type)) and not widening:
                probs.append("`%s` of type %s is converted to %s before the constructor `%s` sees it: out-of-range values wrap silently instead of raising OverflowError" % (render(u), U, T, cf))
        rets = [r for r in f.walk() if r["k"] == "ReturnStmt" and kids(r)]
        opc = [c for c in f.walk() if c["k"] == "CXXOperatorCallExpr" and (c.get("calleeFull") or "") == "mp::%s<%s>" % (f.name, T)]
        if len(rets) != 1 or len(opc) != 1 or not any(x["i"] == opc[0]["i"] for x in walk(rets[0])):
            probs.append("the result is not that of the checked operator mp::%s<%s>" % (f.name, T))
        a4.check(not probs, "%s|%s|%s%s" % (f.name, T, U, "|rev" if si == 1 else ""), short_loc(f.loc),
                 "%s: operand of type %s passes SafeInt<%s>::SafeInt<%s> and the checked operator" % (f.full, U, T, U), "; ".join(probs[:2]))

    # ---- F1: allocation sizes -----------------------------------------------------
    f1 = rep.rule("C17.F1", "FLOW",
                  "every size that reaches Allocate / resize / new[] in expr.h, problem.h from a "
                  "count parameter is val() of a SafeInt expression (type-resolved)", floor=6)
    jobs = [dict(unit="src/expr.cc", repo=repo,
                 fn=[r"mp::BasicExprFactory::.*", r"mp::BasicProblem::.*"]),
            dict(unit="src/problem.cc", repo=repo,
                 fn=[r"mp::BasicExprFactory::.*", r"mp::BasicProblem::.*"]),
            dict(unit="test/expr-test.cc", repo=repo, fn=[r"mp::BasicExprFactory::.*"]),
            dict(unit="test/problem-test.cc", repo=repo, fn=[r"mp::BasicProblem::.*"])]
    G = Facts(export_many(jobs))
    rep.note_units([j["unit"] for j in jobs])
    seen = set()
    COUNT_PARAMS = ("num_args", "num_breakpoints", "num_funcs", "num_vars", "num_exprs",
                    "num_slopes", "n", "size")
    for f in G.funcs:
        if f.is_dependent():
            continue
        rep.functions.add(f.full)
        pids = {p["declId"]: p["name"] for p in f.params
                if (int_type(p.get("ct")) is not None and
                    (p["name"].startswith("num_") or p["name"] in ("extra_bytes", "size", "n")))
                or "StringRef" in p.get("t", "")}
        if not pids:
            continue
        for n in f.walk():
            sink = None
            if n["k"] == "CXXMemberCallExpr" and n.get("callee", "").endswith("::Allocate") and len(call_args(n)) >= 2:
                sink, arg = "Allocate", call_args(n)[1]
            elif n["k"] == "CXXMemberCallExpr" and n.get("callee", "").split("::")[-1] in ("resize", "reserve") \
                    and call_args(n) and n.get("callee", "").startswith("std::"):
                sink, arg = n["callee"].split("::")[-1], call_args(n)[0]
            elif n["k"] == "CXXNewExpr" and n.get("array"):
                ks = kids(n)
                if ks:
                    sink, arg = "new[]", ks[0]
            if sink is None:
                continue
            # does the size depend on a count parameter (directly or through a local)?
            dep = depends_on(f, arg, set(pids))
            if not dep:
                continue
            key = "%s|%s|%s" % (f.qn, sink, render(arg)[:60])
            if (key, f.loc) in seen:
                continue
            seen.add((key, f.loc))
            ok, why = safe_size(f, arg, set(pids))
            f1.check(ok, key, short_loc(n.get("l")),
                     "size `%s` of %s: %s" % (render(arg), sink, why))
    return rep


def depends_on(f, e, pids, depth=0):
    for x in walk(e):
        if x["k"] == "DeclRefExpr":
            if x.get("declId") in pids:
                return True
            if x.get("dk") == "Var" and depth < 3:
                vd = [v for v in f.walk() if v["k"] == "VarDecl" and v.get("declId") == x.get("declId")]
                if vd and kids(vd[0]) and depends_on(f, kids(vd[0])[0], pids, depth + 1):
                    return True
    return False


def safe_size(f, e, pids, depth=0):
    """The expression is val(<SafeInt expr>) (possibly through a local), or every
    arithmetic on a parameter-dependent operand inside it is a SafeInt operator."""
    s = strip(e)
    if s["k"] == "CallExpr" and s.get("callee") == "mp::val":
        inner = call_args(s)[0]
        bad = builtin_arith_on(f, inner, pids)
        return (not bad, "val() of a SafeInt expression" if not bad else
                "built-in arithmetic `%s` inside the SafeInt expression" % render(bad))
    if s["k"] == "DeclRefExpr" and s.get("dk") == "Var" and depth < 3:
        vd = [v for v in f.walk() if v["k"] == "VarDecl" and v.get("declId") == s.get("declId")]
        if vd and kids(vd[0]):
            return safe_size(f, kids(vd[0])[0], pids, depth + 1)
    if s["k"] == "DeclRefExpr" and s.get("declId") in pids:
        return True, "the bare count (no arithmetic)"
    bad = builtin_arith_on(f, s, pids)
    if bad is None:
        return True, "no built-in arithmetic on a count"
    return False, "built-in `%s` on a file-provided count (may wrap)" % render(bad)


def ival(f, e, pids, depth=0):
    """Interval of a built-in integer expression with count parameters in
    [0, INT_MAX] (file-provided counts are read as non-negative ints)."""
    e0 = e
    e = strip(e, casts=False)
    ty = int_type(e.get("ct"))
    full = type_range(ty) if ty else (-(1 << 63), (1 << 64) - 1)
    c = cv(e)
    if c is not None:
        return (c, c)
    k = e["k"]
    if k == "DeclRefExpr":
        if e.get("declId") in pids and ty:
            return (0, min(full[1], (1 << 31) - 1)) if ty[0] else full
        if e.get("dk") == "Var" and depth < 3:
            vd = [v for v in f.walk() if v["k"] == "VarDecl" and v.get("declId") == e.get("declId")]
            if vd and kids(vd[0]):
                return ival(f, kids(vd[0])[0], pids, depth + 1)
        return full
    if k in ("ImplicitCastExpr", "CStyleCastExpr", "CXXStaticCastExpr", "CXXFunctionalCastExpr"):
        lo, hi = ival(f, kids(e)[0], pids, depth)
        if full[0] <= lo and hi <= full[1]:
            return (lo, hi)
        return full
    if k == "BinaryOperator" and e.get("op") in ("+", "-", "*"):
        a = ival(f, kids(e)[0], pids, depth)
        b = ival(f, kids(e)[1], pids, depth)
        if e["op"] == "+":
            return (a[0] + b[0], a[1] + b[1])
        if e["op"] == "-":
            return (a[0] - b[1], a[1] - b[0])
        ps = [x * y for x in a for y in b]
        return (min(ps), max(ps))
    return full


def builtin_arith_on(f, e, pids):
    """First built-in arithmetic on a count whose mathematical result may leave
    the range of the type it is computed in."""
    for x in walk(e):
        if x["k"] in ("BinaryOperator", "CompoundAssignOperator") and x.get("op") in ("+", "*", "-", "+=", "*=", "<<"):
            ty = int_type(x.get("ct"))
            if ty is None or not depends_on(f, x, pids):
                continue
            if x["k"] == "CompoundAssignOperator" or x["op"] == "<<":
                return x
            lo, hi = ival(f, x, pids)
            tlo, thi = type_range(ty)
            if tlo <= lo and hi <= thi:
                continue
            # W64: modular 64-bit arithmetic on a constant and an operand converted
            # from a <=32-bit integer: the modular result equals the mathematical one
            # whenever the latter is non-negative (the allocation-size case)
            if ty[1] == 64 and x["op"] in ("+", "-"):
                ks = kids(x)
                cs = [cv(k_) for k_ in ks]
                if any(c is not None and 0 <= c < (1 << 32) for c in cs):
                    other = ks[0] if cs[0] is None else ks[1]
                    src = strip(other)
                    st = int_type(src.get("ct"))
                    if st is not None and st[1] <= 32:
                        continue
            return x
    return None
