"""C08 - the matrix model API writes the given LP/QP and un-permutes solutions (permutation discipline).

The two index spaces of a variable - the caller's column index (C) and the NL position (P) - are
inferred for every index expression of NLFeeder_Easy, SOLHandler_Easy and NLModel::ComputeObjValue
by a small units-of-measure style type inference (arrays have a domain and a value space, VPerm maps
C->P, VPermInv P->C, writers consume P, position-ordered feeds and readers count in P); any
expression required to live in both spaces is a violation.

F1 writer side, F2 way back, T1 construction of the permutation, G1 class counters and sort key
(complete case enumeration), S1 the four traversals of the Hessian agree, N1 optional caller arrays
are null-checked before use, O1 the objective value is recomputed from the un-permuted vector.
"""
import itertools, math, re
from ..cfg import Facts, kids, strip, walk, cv, render, call_args, call_object, norm_facts
from ..cfg import short_loc as _short_loc
from ..facts import export_many, AnalysisBroken

LEVEL = "other"
TECHNIQUE = ("static analysis: index-space (caller index vs NL position) type inference with unification "
             "over the AST of every feed/handler, structural rules on the permutation construction, "
             "exhaustive case enumeration of the variable-class key/counter logic, sibling agreement of the "
             "Hessian traversals, null-guard (belief) analysis for optional caller arrays")
LEVEL_TEXT = ("Decided: every variable index that reaches a writer is VPerm of a caller index, every caller "
              "array read in a position-ordered feed is subscripted with VPermInv of the position, solution "
              "values and variable suffixes are stored at vperm_inv_[position]; the permutation arrays are "
              "mutually inverse by construction and exported for every variable index; each header class counter is incremented exactly once for "
              "exactly the variables the sort key puts in that class, in NL's class order; all traversals of "
              "the Hessian visit the same (row, entry) pairs with the same factor 0.5; optional arrays are "
              "checked before use.  Not decided: numerical equality of objective and row values after "
              "printing (C03) and the SOL reader's own parsing (C14).")
LEVEL_NOTE = "Trusted: clang 14 front end/CFG, tool/mpx.cc, the rule module (space inference, small evaluator), the stated API axioms."
DESIGN_REF = "DESIGN.md section 4, C08"
EXPLANATION = (
    "Unit nl-writer2/src/nl-solver.cc (text and binary instantiations of every feed).  Axioms taken from the "
    "API contract: ColData/ColNames/ObjCoefficients/Hessian.start_ are indexed by the caller's column index, "
    "the values of A.index_, Q.index_ and Warmstart().index_ are caller column indices, NLSolution::x_ and "
    "variable suffix values are returned in the caller's order, the k-th call of a position-ordered writer and "
    "the k-th value of the SOL reader belong to NL position k.  F1/F2 report any index expression whose "
    "inferred space contradicts its use; T1 checks {key,i} initialisation over all i, a full-range sort with "
    "the default pair order, and the inverse loop var_perm_[var_perm_[i].second].first = i; G1 evaluates the "
    "class logic of PermuteVars for all combinations of (nonlinear, integer, binary bounds, type array "
    "present) and checks key order = NL class order and one counter per class, and that "
    "num_nl_vars_in_objs is incremented only on a false->true transition of the variable's flag; S1 compares "
    "the loop skeletons and the (x, y) index pairs of FillNonlinearVars, FillObjNonzeros, FeedObjExpression "
    "and ComputeObjValue; N1: a pointer that is null-checked anywhere is null-checked before every subscript; "
    "O1: NLSolver::Solve recomputes obj_val_ with ComputeObjValue(sol.x_) after ReadSolution.")
ASSUMPTIONS = ["the caller passes arrays of the documented sizes and index values in range",
               "constraints are linear (the easy API has no nonlinear constraints): num_nl_vars_in_cons/both stay 0"]
TRUSTED = ["clang 14 front end + CFG builder", "tool/mpx.cc", "mpsa/rules/C08.py"]

U = "nl-writer2/src/nl-solver.cc"
FE = "mp::NLFeeder_Easy"
SH = "mp::SOLHandler_Easy"
_REPO = ["/repo"]


def short_loc(l):
    return _short_loc((l or "").replace(_REPO[0].rstrip("/") + "/", "/repo/"))


# spaces: C caller column index, P NL position, N other item index (row, nonzero position, ...),
#         K item index of a suffix in the caller's order (C for variable suffixes),
#         KP item index of a suffix in file order (P for variable suffixes)
ACCESSOR = {"ColData": "ColData", "ColNames": "ColNames", "ObjCoefficients": "ObjCoefficients", "Hessian": "Hessian",
            "GetA": "GetA", "Warmstart": "Warmstart", "DualWarmstart": "DualWarmstart", "RowNames": "RowNames",
            "RowLowerBounds": "RowLowerBounds", "RowUpperBounds": "RowUpperBounds"}
MEMBER_ALIAS = {"Q_": "Hessian", "A_": "GetA", "obj_c_": "ObjCoefficients", "vars_": "ColData", "var_names_": "ColNames",
                "row_names_": "RowNames", "ini_x_": "Warmstart", "ini_y_": "DualWarmstart"}
AXIOM_DOM = {"ColData.lower_": "C", "ColData.upper_": "C", "ColData.type_": "C", "ColNames": "C", "ObjCoefficients": "C",
             "Hessian.start_": "C", "Hessian.index_": "N", "Hessian.value_": "N", "GetA.start_": "N", "GetA.index_": "N",
             "GetA.value_": "N", "Warmstart.index_": "N", "Warmstart.value_": "N", "DualWarmstart.index_": "N",
             "DualWarmstart.value_": "N", "RowNames": "N", "RowLowerBounds": "N", "RowUpperBounds": "N",
             "x_": "C", "x": "C", "y_": "N", "Suffix.values_": "K", "values": "K",
             "var_perm_.first": "C", "var_perm_.second": "P"}
AXIOM_VAL = {"Hessian.index_": "C", "GetA.index_": "C", "Warmstart.index_": "C", "DualWarmstart.index_": "N",
             "var_perm_.first": "P", "var_perm_.second": "C"}
WHY_AXIOM = {"C": "caller column index", "P": "NL position", "N": "non-variable index", "K": "suffix item (caller order)",
             "KP": "suffix item (file order)"}


class Conflict(Exception):
    pass


class NextVar(Exception):
    """`continue` in the class loop"""


class Spaces:
    def __init__(self):
        self.bind = {}          # type variable -> (space, why)
        self.conflicts = []     # (where, text)
        self.sites = 0

    def unify(self, tv, space, where, why):
        if tv is None or space is None:
            return
        if isinstance(tv, str):            # constant
            if tv != space:
                self.conflicts.append((where, why + ": is a %s, used as a %s" % (WHY_AXIOM.get(tv, tv), WHY_AXIOM.get(space, space))))
            return
        cur = self.bind.get(tv)
        if cur is None:
            self.bind[tv] = (space, why)
        elif cur[0] != space:
            self.conflicts.append((where, "%s: `%s` is a %s (%s) but is used as a %s" %
                                   (why, tv[-1] if isinstance(tv, tuple) else tv, WHY_AXIOM.get(cur[0], cur[0]), cur[1],
                                    WHY_AXIOM.get(space, space))))

    def get(self, tv):
        if isinstance(tv, str):
            return tv
        b = self.bind.get(tv)
        return b[0] if b else None


VARPERM_ELEM = {}    # lambda function id -> declId of its parameter, when the lambda is applied to the elements of var_perm_ in position order
HELPERS = {}         # qualified name -> function (unique names only): helpers whose index uses are charged to their call sites
_SUMMARY = {}


def helper_summary(h, depth=0):
    """[(parameter position, "arr", array alias | position of the array parameter) | (parameter position, "call", callee)]:
    how a helper uses its by-value integer parameters as indices"""
    if h is None or depth > 2 or h.qn == FE + "::MarkNonlinearInObj" or h.qn in (FE + "::VPerm", FE + "::VPermInv"):
        return []
    if h.full in _SUMMARY:
        return _SUMMARY[h.full]
    _SUMMARY[h.full] = []
    T = FuncTyper(h, Spaces())
    pos = {p["declId"]: i for i, p in enumerate(h.params)}
    byval = {p["declId"] for p in h.params if "&" not in (p.get("ct") or p.get("t") or "") and "*" not in (p.get("ct") or p.get("t") or "")}
    out = []

    def par(n):
        n = strip(n)
        while n["k"] in ("CStyleCastExpr", "CXXStaticCastExpr", "CXXFunctionalCastExpr") and kids(n):
            n = strip(kids(n)[0])
        return pos[n["declId"]] if n["k"] == "DeclRefExpr" and n.get("declId") in byval else None
    for n in h.walk():
        s_ = T.subscript(n)
        if s_ and par(s_[1]) is not None:
            b = strip(s_[0])
            if b["k"] == "DeclRefExpr" and b.get("declId") in pos:
                out.append((par(s_[1]), "arr", pos[b["declId"]]))
            elif T.alias(b):
                out.append((par(s_[1]), "arr", T.alias(b)))
        if n["k"] in ("CXXMemberCallExpr", "CallExpr"):
            for j, a in enumerate(call_args(n)):
                if par(a) is None:
                    continue
                if n.get("callee") in (FE + "::VPerm", FE + "::VPermInv"):
                    out.append((par(a), "call", n["callee"]))
                for kx, kind, tgt in helper_summary(HELPERS.get(n.get("calleeFull") or "") or HELPERS.get(n.get("callee") or ""), depth + 1):
                    if kx == j and (kind == "call" or isinstance(tgt, str)):
                        out.append((par(a), kind, tgt))
    _SUMMARY[h.full] = out
    return out


class FuncTyper:
    """types the index expressions of one function"""

    def __init__(self, f, S, varkind_flags=()):
        self.f, self.S = f, S
        self.locals = {}
        for v in f.walk():
            if v["k"] == "VarDecl":
                self.locals[v["declId"]] = v
        self.loopstmt = {}      # DeclRef node id -> statement id for per-statement counter instances
        self._mark_loops()
        if f.qn == FE + "::MarkNonlinearInObj" and f.params:
            # every call site is required to pass a caller column index (see ty())
            p = f.params[0]
            S.unify((f.id, p["declId"], None, p["name"]), "C", short_loc(f.loc), "parameter of MarkNonlinearInObj")

    # -- helpers --------------------------------------------------------------------
    def _mark_loops(self):
        f = self.f
        for lp in f.walk():
            if lp["k"] != "ForStmt":
                continue
            ks = lp.get("c", [])
            init, body = ks[0], ks[-1]
            if init is None or init["k"] != "DeclStmt" or body is None:
                continue
            did = kids(init)[0]["declId"]
            stmts = kids(body) if body["k"] == "CompoundStmt" else [body]
            for st in stmts:
                for n in walk(st):
                    if n["k"] == "DeclRefExpr" and n.get("declId") == did:
                        self.loopstmt[n["i"]] = st["i"]

    def where(self, n):
        return short_loc(n.get("l") or self.f.loc)

    def alias(self, e):
        """canonical name of an array-valued expression, or None"""
        e = strip(e)
        k = e["k"]
        if k == "DeclRefExpr":
            v = self.locals.get(e.get("declId"))
            if v is not None and kids(v):
                init = strip(kids(v)[0])
                # auto Q = NLME().Hessian();  const auto& si = ...
                a = self.alias(init)
                if a:
                    return a
            for p in self.f.params:
                if p["declId"] == e.get("declId"):
                    return p["name"]
            return e.get("name")
        if k in ("CXXMemberCallExpr",):
            nm = e.get("callee", "").split("::")[-1]
            if nm in ACCESSOR and not call_args(e):
                return ACCESSOR[nm]
            return None
        if k == "MemberExpr":
            ks = kids(e)
            base = strip(ks[0]) if ks else None
            nm = e.get("name")
            if base is None or base["k"] == "CXXThisExpr":
                return MEMBER_ALIAS.get(nm, nm)
            b = self.alias(base)
            if b in ("pd", "pd_", "sol_", "sol", "result"):
                return nm
            if b == "suf":
                return "Suffix." + nm
            if b is None:
                return nm
            return "%s.%s" % (b, nm)
        if k in ("CXXConstructExpr",) and len(kids(e)) == 1:
            return self.alias(kids(e)[0])
        return None

    def subscript(self, e):
        """(array expr, index expr) if e is arr[idx]"""
        if e["k"] == "ArraySubscriptExpr":
            return kids(e)[0], kids(e)[1]
        if e["k"] == "CXXOperatorCallExpr" and e.get("op") == "[]":
            a = call_args(e)
            return a[0], a[1]
        return None

    def tv_of_var(self, ref):
        did = ref.get("declId")
        st = self.loopstmt.get(ref["i"])
        return (self.f.id, did, st, ref.get("name"))

    # -- typing ----------------------------------------------------------------------
    def ty(self, e, vk=None):
        """space of expression e (constant, type variable or None); generates constraints on the way"""
        e = strip(e)
        if e is None:
            return None
        k = e["k"]
        S = self.S
        if k in ("IntegerLiteral", "FloatingLiteral", "CXXBoolLiteralExpr", "StringLiteral", "CharacterLiteral", "CXXThisExpr",
                 "CXXNullPtrLiteralExpr", "GNUNullExpr"):
            return None
        if k in ("CStyleCastExpr", "CXXStaticCastExpr", "CXXFunctionalCastExpr"):
            return self.ty(kids(e)[0], vk)
        if k == "DeclRefExpr":
            if e.get("dk") not in ("Var", "Parm", "ParmVar"):
                return None
            t = e.get("ct") or e.get("t") or ""
            if not any(x in t for x in ("int", "long", "size_t", "size_type", "short")) or "*" in t or "vector" in t:
                return None
            v = self.locals.get(e.get("declId"))
            tv = self.tv_of_var(e)
            got = S.get(tv)
            if got is None and v is not None and kids(v) and self.loopstmt.get(e["i"]) is None:
                # plain local initialised once: its space is the initialiser's
                it = self.ty(kids(v)[0], vk)
                if it is not None:
                    S.unify(tv, S.get(it) or it if isinstance(it, str) else S.get(it), self.where(e), "initialiser of `%s`" % e.get("name")) \
                        if (isinstance(it, str) or S.get(it)) else None
                    got = S.get(tv)
            if got in ("K", "KP") and vk is not None:
                return {("K", True): "C", ("KP", True): "P", ("K", False): "K", ("KP", False): "K"}[(got, vk)]
            return got or tv
        sub = self.subscript(e)
        if sub:
            arr, idx = sub
            return self.sub_use(e, self.alias(arr), idx, vk)
        return self.ty_rest(e, vk)

    def sub_use(self, e, name, idx, vk):
        """constraints and value space of `name[idx]` (e: the node to report)"""
        S = self.S
        if True:
            it = self.ty(idx, vk)
            S.sites += 1
            if name is not None:
                dom = AXIOM_DOM.get(name)
                if dom is None:
                    dtv = ("dom", name)
                    want = S.get(dtv)
                    if want is not None:
                        self.require(idx, it, want, "subscript of %s" % name, vk)
                    elif it is not None and S.get(it) is not None:
                        S.unify(dtv, S.get(it), self.where(e), "subscript of %s" % name)
                    elif it is not None and not isinstance(it, str):
                        # both unknown: remember the link by binding later passes
                        self.pending.append((dtv, it, e, name))
                else:
                    self.require(idx, it, dom, "subscript of %s" % name, vk)
                val = self.val_of(name)
                if val in ("K", "KP") and vk is not None:
                    val = {("K", True): "C", ("KP", True): "P", ("K", False): "K", ("KP", False): "K"}[(val, vk)]
                return val
            return None

    def ty_rest(self, e, vk):
        k = e["k"]
        S = self.S
        if k == "UnaryOperator" and e.get("op") == "*":
            # *p where p walks an array of the model (const int* p = a.index_; ...; ++p): an element of that array
            b_ = strip(kids(e)[0])
            v_ = self.locals.get(b_.get("declId")) if b_ is not None and b_["k"] == "DeclRefExpr" else None
            if v_ is not None and kids(v_) and "*" in (v_.get("ct") or v_.get("t") or ""):
                name_ = self.alias(kids(v_)[0])
                if name_ is not None:
                    S.sites += 1
                    val_ = self.val_of(name_)
                    if val_ in ("K", "KP") and vk is not None:
                        val_ = {("K", True): "C", ("KP", True): "P", ("K", False): "K", ("KP", False): "K"}[(val_, vk)]
                    return val_
        if k == "MemberExpr":
            ks = kids(e)
            nm = e.get("name")
            if ks:
                base = strip(ks[0])
                bs = self.subscript(base) if base is not None else None
                if bs and nm in ("first", "second"):
                    an = self.alias(bs[0])
                    if an == "var_perm_":
                        name = "var_perm_." + nm
                        it = self.ty(bs[1], vk)
                        S.sites += 1
                        self.require(bs[1], it, AXIOM_DOM[name], "subscript of %s" % name, vk)
                        return AXIOM_VAL[name]
                # the element of var_perm_ visited by an algorithm over its positions: `.second` is the caller column at that position
                if nm == "second" and base is not None and base["k"] == "DeclRefExpr" and VARPERM_ELEM.get(self.f.id) == base.get("declId"):
                    S.sites += 1
                    return AXIOM_VAL["var_perm_.second"]
                # val.first of a suffix entry read from the file
                if nm == "first" and base is not None and base["k"] == "DeclRefExpr":
                    v = self.locals.get(base.get("declId"))
                    if v is not None and kids(v) and "ReadNext" in render(kids(v)[0]):
                        return {None: "KP", True: "P", False: "K"}[vk]
                self.ty(ks[0], vk)
            return None
        if k in ("CXXMemberCallExpr", "CallExpr"):
            nm = e.get("callee", "").split("::")[-1]
            args = call_args(e)
            if e.get("callee") == FE + "::VPerm":
                self.require(args[0], self.ty(args[0], vk), "C", "argument of VPerm", vk)
                S.sites += 1
                return "P"
            if e.get("callee") == FE + "::VPermInv":
                self.require(args[0], self.ty(args[0], vk), "P", "argument of VPermInv", vk)
                S.sites += 1
                return "C"
            if e.get("callee") in ("mp::NLModel::ColName",):
                self.require(args[0], self.ty(args[0], vk), "C", "argument of ColName", vk)
                S.sites += 1
                return None
            if e.get("callee") in ("mp::NLModel::RowName",):
                self.require(args[0], self.ty(args[0], vk), "N", "argument of RowName", vk)
                return None
            if e.get("callee") == FE + "::MarkNonlinearInObj":
                self.require(args[0], self.ty(args[0], vk), "C", "argument of MarkNonlinearInObj", vk)
                S.sites += 1
                return None
            # a helper that uses a by-value parameter as an index: the argument is used like that at this call
            for kx, kind, tgt in helper_summary(HELPERS.get(e.get("calleeFull") or "") or HELPERS.get(e.get("callee") or "")):
                if kx >= len(args):
                    continue
                if kind == "arr":
                    name = tgt if isinstance(tgt, str) else (self.alias(args[tgt]) if tgt < len(args) else None)
                    if name is not None:
                        self.sub_use(e, name, args[kx], vk)
                elif tgt in (FE + "::VPerm", FE + "::VPermInv"):
                    self.require(args[kx], self.ty(args[kx], vk), "C" if tgt.endswith("VPerm") else "P", "argument of %s (through %s)" % (tgt.split("::")[-1], nm), vk)
                    S.sites += 1
            if k == "CXXMemberCallExpr":
                obj = call_object(e)
                if obj is not None:
                    self.ty(obj, vk)
            for a in args:
                self.ty(a, vk)
            return None
        if k == "ConditionalOperator":
            c, a, b = kids(e)
            flag = self.kind_flag(c)
            if flag is not None:
                ta = self.ty(a, True if flag else False)
                tb = self.ty(b, False if flag else True)
                tt, tf = (ta, tb) if flag else (tb, ta)
                tt, tf = S.get(tt) if tt is not None else None, S.get(tf) if tf is not None else None
                if tt == "P" and tf == "K":
                    return "KP"
                if tt == "C" and tf == "K":
                    return "K"
                S.conflicts.append((self.where(e), "kind dispatch `%s`: the variable branch is a %s and the other branch a %s"
                                    % (render(e)[:70], WHY_AXIOM.get(tt, tt), WHY_AXIOM.get(tf, tf))))
                return None
            self.ty(c, vk)
            ta, tb = self.ty(a, vk), self.ty(b, vk)
            return ta if ta is not None else tb
        if k in ("BinaryOperator", "CompoundAssignOperator"):
            a, b = kids(e)
            op = e.get("op")
            if op == "=":
                tb = self.ty(b, vk)
                sub = self.subscript(strip(a))
                am = strip(a)
                if am["k"] == "MemberExpr" and kids(am) and self.subscript(strip(kids(am)[0])) and am.get("name") in ("first", "second") \
                        and self.alias(self.subscript(strip(kids(am)[0]))[0]) == "var_perm_":
                    self.ty(a, vk)
                    self.require(b, tb, AXIOM_VAL["var_perm_." + am["name"]], "value stored in var_perm_.%s" % am["name"], vk)
                    return None
                if sub:
                    name = self.alias(sub[0])
                    self.ty(a, vk)
                    if name is not None:
                        vt = AXIOM_VAL.get(name)
                        if vt is None and name in ("vperm_", "vperm_inv_"):
                            tbv = S.get(tb) if tb is not None else None
                            if tbv is not None:
                                S.unify(("val", name), tbv, self.where(e), "value stored in %s" % name)
                        elif vt is not None:
                            self.require(b, tb, vt, "value stored in %s" % name, vk)
                    return None
                ta = self.ty(a, vk)
                if ta is not None and tb is not None and not isinstance(ta, str):
                    tbv = S.get(tb)
                    if tbv:
                        S.unify(ta, tbv, self.where(e), "assignment")
                return None
            ta, tb = self.ty(a, vk), self.ty(b, vk)
            if op in ("<", "<=", ">", ">=", "==", "!=", "&&", "||", "+", "-", "*", "/", "%", "&", "|", ","):
                return None
            return None
        if k == "UnaryOperator":
            t = self.ty(kids(e)[0], vk)
            return t if e.get("op") in ("++", "--") else None
        if k == "CXXOperatorCallExpr":
            for a in call_args(e):
                self.ty(a, vk)
            return None
        for c_ in kids(e):
            if c_["k"] not in ("CompoundStmt",):
                self.ty(c_, vk)
        return None

    def val_of(self, name):
        return AXIOM_VAL.get(name) or self.S.get(("val", name))

    def require(self, expr, t, space, why, vk=None):
        S = self.S
        if t is None:
            return
        if isinstance(t, str):
            cur = t
            if cur in ("K", "KP") and vk is not None:
                cur = {("K", True): "C", ("KP", True): "P", ("K", False): "K", ("KP", False): "K"}[(cur, vk)]
            if cur != space:
                S.conflicts.append((self.where(strip(expr)), "%s: `%s` is a %s, a %s is required" %
                                    (why, render(expr)[:60], WHY_AXIOM.get(cur, cur), WHY_AXIOM.get(space, space))))
            return
        S.unify(t, space, self.where(strip(expr)), why)

    def kind_flag(self, c):
        """True if `c` is the 'variable suffix' flag, False if its negation, None otherwise"""
        c = strip(c)
        if c["k"] == "DeclRefExpr":
            v = self.locals.get(c.get("declId"))
            if v is not None and kids(v):
                return self.kind_flag(kids(v)[0])
            return None
        if c["k"] == "UnaryOperator" and c.get("op") == "!":
            r = self.kind_flag(kids(c)[0])
            return (not r) if r is not None else None
        if c["k"] == "BinaryOperator" and c.get("op") in ("==", "!="):
            a, b = kids(c)
            for x, y in ((a, b), (b, a)):
                if cv(x) == 0:
                    y = strip(y)
                    if y["k"] == "BinaryOperator" and y.get("op") == "&" and 3 in (cv(kids(y)[0]), cv(kids(y)[1])) and \
                            "kind" in render(y).lower():
                        return c["op"] == "=="
        return None

    def run(self, stmts=None):
        self.pending = []
        roots = stmts if stmts is not None else self.f.roots
        for r in roots:
            self.stmt(r)
        # second pass resolves links between unknown counters and inferred array domains
        for dtv, it, e, name in self.pending:
            a, b = self.S.get(dtv), self.S.get(it)
            if a and not b:
                self.S.unify(it, a, self.where(e), "subscript of %s" % name)
            elif b and not a:
                self.S.unify(dtv, b, self.where(e), "subscript of %s" % name)
            elif a and b and a != b:
                self.S.conflicts.append((self.where(e), "subscript of %s: index is a %s, the array is indexed by %s elsewhere"
                                         % (name, WHY_AXIOM.get(b, b), WHY_AXIOM.get(a, a))))

    def stmt(self, s):
        if s is None:
            return
        k = s["k"]
        if k in ("CompoundStmt",):
            for c_ in kids(s):
                self.stmt(c_)
        elif k == "DeclStmt":
            for v in kids(s):
                if kids(v):
                    self.ty(kids(v)[0])
        elif k == "IfStmt" and self._kind_dispatch_assign(s):
            return
        elif k in ("ForStmt", "WhileStmt", "DoStmt", "CXXForRangeStmt", "IfStmt", "SwitchStmt", "CaseStmt", "DefaultStmt"):
            for c_ in s.get("c", []):
                if c_ is None:
                    continue
                if c_["k"] in ("CompoundStmt", "DeclStmt", "ForStmt", "IfStmt", "WhileStmt", "CXXForRangeStmt", "ReturnStmt",
                               "SwitchStmt", "CaseStmt", "DefaultStmt", "BreakStmt", "NullStmt"):
                    self.stmt(c_)
                else:
                    self.handle_expr(c_)
        elif k == "ReturnStmt":
            for c_ in kids(s):
                self.handle_expr(c_)
        elif k in ("CtorInit",):
            return
        else:
            self.handle_expr(s)

    def _kind_dispatch_assign(self, s):
        """`T v; if (is-variable-suffix) v = a; else v = b;` is the statement form of `T v = flag ? a : b`: the local gets the
        conditional expression as its initialiser (typed by the kind dispatch of ty())"""
        ks = [x for x in s.get("c", []) if x is not None]
        if len(ks) != 3 or self.kind_flag(ks[0]) is None:
            return False

        def single_assign(b):
            while b is not None and b["k"] == "CompoundStmt" and len(kids(b)) == 1:
                b = kids(b)[0]
            b = strip(b) if b is not None else None
            if b is not None and b["k"] == "BinaryOperator" and b.get("op") == "=" and strip(kids(b)[0])["k"] == "DeclRefExpr":
                return strip(kids(b)[0]).get("declId"), kids(b)[1]
            return None
        a, b = single_assign(ks[1]), single_assign(ks[2])
        if a is None or b is None or a[0] != b[0] or a[0] not in self.locals or kids(self.locals[a[0]]):
            return False
        other = [n for n in self.f.walk() if n["k"] in ("BinaryOperator", "CompoundAssignOperator") and n.get("op", "").endswith("=") and
                 n.get("op") not in ("==", "!=", "<=", ">=") and strip(kids(n)[0]).get("declId") == a[0]]
        if len(other) != 2:
            return False
        v = dict(self.locals[a[0]])
        v["c"] = [{"k": "ConditionalOperator", "i": -1, "c": [ks[0], a[1], b[1]], "l": s.get("l")}]
        self.locals[a[0]] = v
        return True

    # sinks -----------------------------------------------------------------------------
    SINKS = None

    def handle_expr(self, e):
        """expression statement: recognise writer sinks, then type everything"""
        for c in walk(e):
            if c["k"] == "CXXMemberCallExpr":
                nm = c.get("callee", "")
                short = nm.split("::")[-1]
                args = call_args(c)
                obj = call_object(c)
                objname = render(obj) if obj is not None else ""
                fname = self.f.qn.split("::")[-1]
                req = None
                if short == "Write" and "SparseVectorWriter" in nm and len(args) == 2:
                    req = {"FeedObjGradient": "P", "FeedLinearConExpr": "P", "FeedInitialGuesses": "P",
                           "FeedInitialDualGuesses": "N", "FeedSuffixes": "KP"}.get(fname)
                    if req is None:
                        raise AnalysisBroken("C08: sparse vector writer used in %s, not in the sink table" % self.f.qn)
                elif short == "VPut":
                    req = "P"
                if req is not None:
                    self.S.sites += 1
                    t = self.ty(args[0])
                    tv_ = self.S.get(t) if t is not None else None
                    if t is None or (tv_ is None and isinstance(t, str)):
                        self.S.conflicts.append((self.where(c), "index `%s` passed to %s has no variable space" % (render(args[0])[:50], short)))
                    else:
                        self.require(args[0], t, req, "index written by %s.%s in %s" % (objname, short, fname))
                    for a in args[1:]:
                        self.ty(a)
                    self.sink_calls.append((c, req))
        self.ty(e)

    sink_calls = None


def full_range_loop(lp, bounds, f=None):
    """for (i = 0; i < N; ++i) or for (auto i = N; i--; ) with render(N) in bounds -> (declId, 'up'/'down') else None;
    with the function given, any spelling cfg.loop_shape recognises (while loops, hoisted bounds)"""
    if f is not None:
        from ..cfg import loop_shape, xrender
        sh = loop_shape(f, lp)
        if sh is not None and sh["stepped"] and sh.get("values") == "from-start" and sh["start"] is not None:
            sc = lambda t: t.replace(" ", "").replace("(int)", "").replace("(size_t)", "")
            for t_ in (sc(xrender(f, sh["start"], True)), sc(render(sh["start"]))):
                if t_.endswith("-1") and t_[:-2] in bounds:
                    return sh["var"], "down"              # for (i = N - 1; i >= 0; --i)
        if sh is not None and sh["stepped"] and sh["bound"] is not None:
            sc = lambda t: t.replace(" ", "").replace("(int)", "").replace("(size_t)", "")
            b = sc(xrender(f, sh["bound"], True))
            b0 = sc(render(sh["bound"]))
            if sh["dir"] == "up" and sh["rel"] in ("<", "!=") and sh["start"] is not None and cv(sh["start"]) == 0 and (b in bounds or b0 in bounds):
                return sh["var"], "up"
            if sh["dir"] == "down" and sh.get("values") == "below" and (b in bounds or b0 in bounds):
                return sh["var"], "down"
    ks = lp.get("c", [])
    if lp["k"] != "ForStmt" or ks[0] is None or ks[0]["k"] != "DeclStmt":
        return None
    v = kids(ks[0])[0]
    init = render(kids(v)[0]).replace(" ", "") if kids(v) else ""
    cond = ks[2]
    inc = ks[3]
    name = v["name"]
    strip_casts = lambda s: s.replace("(int)", "").replace("(size_t)", "")
    if cond is not None and inc is None:
        c = strip(cond)
        if c["k"] == "UnaryOperator" and c.get("op") == "--" and c.get("postfix") and render(kids(c)[0]) == name and \
                strip_casts(init) in bounds:
            return v["declId"], "down"
    if cond is not None and inc is not None and cv(kids(v)[0]) == 0:
        c = render(cond).replace(" ", "")
        if strip_casts(c) in ["%s<%s" % (name, b) for b in bounds] and render(inc) in ("++" + name, name + "++"):
            return v["declId"], "up"
    return None


NVARS = ["header_.num_vars", "NLME().NumCols()", "NumCols()", "var_perm_.size()", "pd.vperm_.size()", "nlv_obj_.size()"]


def run(rep, ctx):
    repo = ctx["repo"]
    _REPO[0] = repo
    fn = [FE + r"::.*", SH + r"::.*", r"mp::NLModel::(ComputeObjValue|WriteNL)", r"mp::NLSolver::(Solve|LoadModel|ReadSolution)"]
    jobs = [dict(unit=U, fn=fn, repo=repo, closure=1, closure_roots="^" + FE + "::"),
            dict(unit="nl-writer2/src/nl-solver-c.cc", fn=[r"NLW2_.*Solve.*", r".*ReadSolution.*", r".*ComputeObjValue.*"], repo=repo)]
    F = Facts(export_many(jobs))
    rep.note_units([U, "nl-writer2/src/nl-solver-c.cc"])
    funcs = [f for f in F.funcs if not f.is_dependent() and f.cfg is not None and f.unit == U]
    HELPERS.clear()
    _SUMMARY.clear()
    cnt_ = {}
    for f in funcs:
        cnt_[f.qn] = cnt_.get(f.qn, 0) + 1
    for f in funcs:
        if f.params and len(list(f.walk())) < 400:
            HELPERS[f.full] = f
            if cnt_[f.qn] == 1:
                HELPERS[f.qn] = f
    rep.note_funcs(funcs)

    def all_of(qn):
        c = [f for f in funcs if f.qn == qn]
        if not c:
            raise AnalysisBroken("anchor %s not found" % qn)
        return c

    def one(qn):
        return all_of(qn)[0]

    def inst(f):
        return "binary" if "BinaryFormatter" in f.full else ("text" if "TextFormatter" in f.full else "")

    # ---- F1 / F2 : index spaces ----------------------------------------------------------
    f1 = rep.rule("C08.F1", "FLOW", "writer side: every variable index reaching a writer is VPerm(caller index); caller "
                  "arrays in position-ordered feeds are read at VPermInv(position)", floor=16)
    f2 = rep.rule("C08.F2", "FLOW", "way back: solution values and variable suffixes are stored at vperm_inv_[position]; "
                  "vperm_/vperm_inv_ are exported from VPerm/VPermInv", floor=5)
    S = Spaces()
    # exported arrays: fixed by ExportPreproData, used by the SOL handler
    writer_fns = ["MarkNonlinearInObj", "FillNonlinearVars", "FillObjNonzeros", "FillColSizes", "FillHeader",
                  "FeedObjGradient", "FeedObjExpression", "FeedVarBounds", "FeedConBounds", "FeedLinearConExpr", "FeedColumnSizes",
                  "FeedInitialGuesses", "FeedInitialDualGuesses", "FeedSuffixes", "FeedRowAndObjNames", "FeedColNames"]
    back_fns = [(FE, "ExportPreproData"), (SH, "OnPrimalSolution"), (SH, "OnDualSolution"), (SH, "OnSuffix"),
                ("mp::NLModel", "ComputeObjValue")]
    seq_axioms = {"FeedVarBounds": "WriteLbUb", "FeedColumnSizes": "Write", "FeedColNames": "<<",
                  "OnPrimalSolution": "ReadNext"}

    def seq_loop(f, sinkname):
        """the loop whose k-th iteration produces/consumes NL position k: (loop, counter declId) after checking that the
        counter runs 0,1,2,... and the sink is executed exactly once per iteration"""
        sinks = []
        for c in f.walk():
            if c["k"] == "CXXMemberCallExpr" and c.get("callee", "").split("::")[-1] == sinkname:
                sinks.append(c)
            if c["k"] == "CXXOperatorCallExpr" and c.get("op") == sinkname and sinkname == "<<":
                sinks.append(c)
        if len(sinks) != 1:
            raise AnalysisBroken("C08: %d `%s` sinks in %s" % (len(sinks), sinkname, f.qn))
        lp = f.enclosing(sinks[0], ("ForStmt", "WhileStmt", "DoStmt", "CXXForRangeStmt"))
        if lp is None or lp["k"] not in ("ForStmt", "WhileStmt"):
            return None, None, sinks[0], "the sink is not inside a counting loop"
        ks = lp.get("c", [])
        body = [x for x in ks if x is not None][-1]
        v = None
        if lp["k"] == "ForStmt" and ks[0] is not None and ks[0]["k"] == "DeclStmt":
            v = kids(ks[0])[0]
            if v is None or cv(kids(v)[0]) != 0 or ks[3] is None or render(ks[3]) not in ("++" + v["name"], v["name"] + "++"):
                v = None
        if v is None:
            # a counter kept beside the loop: set to 0 right before it and incremented once, unconditionally, per iteration
            tops = [x for x in (kids(body) if body["k"] == "CompoundStmt" else [body]) if x is not None]
            if lp["k"] == "ForStmt" and ks[3] is not None:
                tops = tops + [ks[3]]
            for st_ in tops:
                u = strip(st_)
                if u["k"] == "UnaryOperator" and u.get("op") == "++" and strip(kids(u)[0])["k"] == "DeclRefExpr":
                    vid = strip(kids(u)[0]).get("declId")
                    par = f.parent.get(lp["i"])
                    sibs = [x for x in (kids(par) if par is not None else []) if x is not None]
                    idx = next((k_ for k_, x in enumerate(sibs) if x["i"] == lp["i"]), 0)
                    init0 = None
                    cands = ([ks[0]] if lp["k"] == "ForStmt" and ks[0] is not None else []) + list(reversed(sibs[:idx]))
                    for prev in cands:
                        hit = [n for n in walk(prev) if (n["k"] == "VarDecl" and n.get("declId") == vid and kids(n)) or
                               (n["k"] == "BinaryOperator" and n.get("op") == "=" and strip(kids(n)[0]).get("declId") == vid)]
                        if hit:
                            h0 = hit[-1]
                            init0 = cv(kids(h0)[0] if h0["k"] == "VarDecl" else kids(h0)[1])
                            break
                        if any(n["k"] == "DeclRefExpr" and n.get("declId") == vid for n in walk(prev)):
                            break
                    if init0 == 0:
                        vd = [n for n in f.walk() if n["k"] == "VarDecl" and n.get("declId") == vid]
                        v = dict(name=strip(kids(u)[0]).get("name"), declId=vid, _inc=u["i"], **({} if not vd else {}))
                        break
        if v is None:
            return lp, None, sinks[0], "the loop counter does not run 0,1,2,..."
        inner = {n["i"] for n in walk(body)}
        conds = [c for c in f.cfg.facts_at(sinks[0]) if c[0] in inner]
        nested = [a for a in f.ancestors(sinks[0]) if a["k"] in ("ForStmt", "WhileStmt", "DoStmt", "CXXForRangeStmt") and a["i"] in inner]
        if conds or nested:
            return lp, None, sinks[0], "the sink is conditional or nested inside the loop body: iteration k is not position k"
        # the counter is modified only by the increment
        for n in walk(body):
            if n["k"] in ("UnaryOperator",) and n.get("op") in ("++", "--") and strip(kids(n)[0]).get("declId") == v["declId"] and n["i"] != v.get("_inc"):
                return lp, None, sinks[0], "the counter is modified inside the body"
            if n["k"] in ("BinaryOperator", "CompoundAssignOperator") and n.get("op", "").endswith("=") and \
                    n.get("op") not in ("==", "!=", "<=", ">=") and strip(kids(n)[0]).get("declId") == v["declId"]:
                return lp, None, sinks[0], "the counter is assigned inside the body"
        return lp, v, sinks[0], ""

    def foreach_form(f, sinkname):
        """(lambda function, sink call) when f feeds by std::for_each(var_perm_.begin(), var_perm_.begin() + k | var_perm_.end(), lambda)
        with exactly one unconditional sink call in the lambda, else None"""
        own = [c for c in f.walk() if c["k"] == "CXXMemberCallExpr" and c.get("callee", "").split("::")[-1] == sinkname]
        if own:
            return None
        fes = [c for c in f.walk() if c["k"] == "CallExpr" and (c.get("callee") or "").split("::")[-1] == "for_each" and len(call_args(c)) == 3]
        if len(fes) != 1:
            return None
        a0, a1 = [render(x).replace(" ", "").replace("this->", "") for x in call_args(fes[0])[:2]]
        if a0 != "var_perm_.begin()" or not (a1 == "var_perm_.end()" or a1.startswith("var_perm_.begin()+")):
            return None
        lam = next((x for x in walk(call_args(fes[0])[2]) if x["k"] == "LambdaExpr"), None)
        Ls = [g for g in funcs if g.qn == f.qn + "::(lambda)::operator()" and (lam is None or (g.loc or "").rsplit(":", 2)[0] == (lam.get("l") or "").rsplit(":", 2)[0])]
        for L in Ls:
            sk = [c for c in L.walk() if c["k"] == "CXXMemberCallExpr" and c.get("callee", "").split("::")[-1] == sinkname]
            if len(sk) == 1 and len(L.params) == 1 and not L.cfg.facts_at(sk[0]) and \
                    not [a for a in L.ancestors(sk[0]) if a["k"] in ("ForStmt", "WhileStmt", "DoStmt", "CXXForRangeStmt")]:
                VARPERM_ELEM[L.id] = L.params[0]["declId"]
                return L, sk[0]
        return None

    analysed = 0
    per_func_conf = {}
    typers = []
    for cls, names in ((FE, writer_fns),):
        for nm in names:
            if nm == "MarkNonlinearInObj" and not [f for f in funcs if f.qn == cls + "::" + nm]:
                continue
            for f in all_of(cls + "::" + nm):
                T = FuncTyper(f, S)
                T.sink_calls = []
                fe_ = foreach_form(f, seq_axioms[nm]) if nm in seq_axioms else None
                if fe_ is not None:
                    # the feed is an algorithm over the positions of var_perm_: element k is position k by construction
                    L_, sink_ = fe_
                    f1.ok("%s|%s|sequential" % (nm, inst(f)), short_loc(sink_.get("l")),
                          "the k-th %s call is NL position k (std::for_each over var_perm_ from its first element, one call per element)" % seq_axioms[nm])
                    TL_ = FuncTyper(L_, S)
                    TL_.sink_calls = []
                    before_l = len(S.conflicts)
                    TL_.run()
                    typers.append((TL_, f1, nm))
                    per_func_conf[(nm, inst(f) + "|lambda")] = (L_, before_l, len(S.conflicts))
                elif nm in seq_axioms:
                    lp, v, sink, why = seq_loop(f, seq_axioms[nm])
                    if v is None:
                        f1.fail("%s|%s|sequential" % (nm, inst(f)), short_loc(sink.get("l")), "%s: %s" % (nm, why))
                    else:
                        f1.ok("%s|%s|sequential" % (nm, inst(f)), short_loc(sink.get("l")),
                              "the k-th %s call is NL position k (counter `%s` runs 0,1,2,..., one call per iteration)" % (seq_axioms[nm], v["name"]))
                        for n in walk(lp):
                            if n["k"] == "DeclRefExpr" and n.get("declId") == v["declId"]:
                                S.unify(T.tv_of_var(n), "P", short_loc(n.get("l")), "counter of the position-ordered feed %s" % nm)
                before = len(S.conflicts)
                T.run()
                typers.append((T, f1, nm))
                analysed += 1
                per_func_conf[(nm, inst(f))] = (f, before, len(S.conflicts))
    nconf_w = len(S.conflicts)
    for cls, nm in back_fns:
        for f in all_of(cls + "::" + nm):
            T = FuncTyper(f, S)
            T.sink_calls = []
            if nm in seq_axioms:
                lp, v, sink, why = seq_loop(f, seq_axioms[nm])
                if v is None:
                    f2.fail("%s|sequential" % nm, short_loc(sink.get("l")), "%s: %s" % (nm, why))
                else:
                    f2.ok("%s|sequential" % nm, short_loc(sink.get("l")),
                          "the k-th value read is NL position k (counter `%s` runs 0,1,2,..., one ReadNext per iteration)" % v["name"])
                    for n in walk(lp):
                        if n["k"] == "DeclRefExpr" and n.get("declId") == v["declId"]:
                            S.unify(T.tv_of_var(n), "P", short_loc(n.get("l")), "counter of the position-ordered reader %s" % nm)
            before = len(S.conflicts)
            T.run()
            analysed += 1
            per_func_conf[(nm, "back" + inst(f) + str(analysed))] = (f, before, len(S.conflicts))
    # exported arrays: domain/value inferred in ExportPreproData must be what the handlers assume
    for name, dom, val in (("vperm_", "C", "P"), ("vperm_inv_", "P", "C")):
        gd, gv = S.get(("dom", name)), S.get(("val", name))
        f2.check(gd == dom and gv == val, "export|%s" % name, short_loc(one(FE + "::ExportPreproData").loc),
                 "%s maps %s to %s" % (name, WHY_AXIOM[dom], WHY_AXIOM[val]),
                 "%s is filled as a map from %s to %s, expected %s to %s" %
                 (name, WHY_AXIOM.get(gd, gd), WHY_AXIOM.get(gv, gv), WHY_AXIOM[dom], WHY_AXIOM[val]))
    # ... and every index is exported: both arrays are stored, unconditionally, in a loop over the whole variable range
    exf = one(FE + "::ExportPreproData")
    Tex = FuncTyper(exf, Spaces())
    for name in ("vperm_", "vperm_inv_"):
        stores = []
        for n in exf.walk():
            if (n["k"] == "BinaryOperator" and n.get("op") == "=") or (n["k"] == "CXXOperatorCallExpr" and n.get("op") == "="):
                lhs = strip(kids(n)[0] if n["k"] == "BinaryOperator" else call_args(n)[0])
                sb = Tex.subscript(lhs) if lhs is not None else None
                if sb and (Tex.alias(sb[0]) or "").split(".")[-1] == name:
                    stores.append((n, sb[1]))
        okx, whyx = False, "%d stores of %s" % (len(stores), name)
        if len(stores) == 1:
            st_, ix_ = stores[0]
            lp_ = exf.enclosing(st_, ("ForStmt", "WhileStmt", "DoStmt", "CXXForRangeStmt"))
            fr_ = full_range_loop(lp_, NVARS, exf) if lp_ is not None and lp_["k"] in ("ForStmt", "WhileStmt") else None
            body_ = [x for x in lp_.get("c", []) if x is not None][-1] if lp_ is not None else None
            inner_ = {x["i"] for x in walk(body_)} if body_ is not None else set()
            cond_ = [c_ for c_ in exf.cfg.facts_at(st_) if c_[0] in inner_]
            okx = fr_ is not None and strip(ix_).get("declId") == fr_[0] and not cond_
            whyx = "the store `%s` is %s" % (render(st_)[:50], "conditional" if cond_ else "not in a loop over all variable indexes (0 .. number of columns - 1)")
        f2.check(okx, "export-total|%s" % name, short_loc(exf.loc), "%s[i] is stored for every variable index i" % name,
                 "%s: an index that is not exported keeps the value 0 and the solution of that position is returned to the wrong column" % whyx)
    # uses of the exported arrays in the handler: typed with the *expected* spaces (so a swap shows up at the use)
    for (nm, tag), (f, a, b) in sorted(per_func_conf.items()):
        rule = f2 if tag.startswith("back") else f1
        confs = S.conflicts[a:b]
        key = "%s|%s" % (nm, tag if not tag.startswith("back") else inst(f) or "all")
        if confs:
            for w, t in confs[:4]:
                rule.fail(key + "|" + w.split(":")[-1], w, t)
        else:
            rule.ok(key, short_loc(f.loc), "index spaces consistent")
    for dname in ("obj_grad_supp_", "col_sizes_", "nlv_obj_"):
        got = S.get(("dom", dname))
        f1.check(got == "C", "array-domain|%s" % dname, "", "%s is indexed by caller column index everywhere" % dname,
                 "%s is indexed by %s" % (dname, WHY_AXIOM.get(got, got)))
    rep.extra["index_sites_typed"] = S.sites
    rep.extra["functions_typed"] = analysed

    # the handler reads the exported arrays in the same roles
    for f in all_of(SH + "::OnPrimalSolution") + all_of(SH + "::OnSuffix"):
        used = {T_.alias(s_[0]) for T_ in [FuncTyper(f, Spaces())] for n in f.walk() for s_ in [T_.subscript(n)] if s_}
        f2.check("vperm_inv_" in used and "vperm_" not in used, "handler-uses-inverse|%s|%s" % (f.name, inst(f) or f.full[-30:]),
                 short_loc(f.loc), "%s maps file positions with vperm_inv_" % f.name,
                 "%s uses %s" % (f.name, sorted(x for x in used if x and x.startswith("vperm"))))

    # ---- T1 ---------------------------------------------------------------------------
    t1 = rep.rule("C08.T1", "PATH", "var_perm_: {key, i} for all i, full default-order sort, inverse loop", floor=5)
    pv = one(FE + "::PermuteVars")
    top = kids(pv.body)
    sorts = [s for s in top if strip(s)["k"] == "CallExpr" and strip(s).get("callee") in ("std::stable_sort", "std::sort")]
    t1.check(len(sorts) == 1, "one-sort", short_loc(pv.loc), "exactly one sort at the top level of PermuteVars")
    if len(sorts) != 1:
        raise AnalysisBroken("C08.T1: PermuteVars has no single top-level sort")
    si = top.index(sorts[0])
    sc = strip(sorts[0])
    a = [render(x) for x in call_args(sc)]
    t1.check(a == ["var_perm_.begin()", "var_perm_.end()"], "sort-full-range", short_loc(sc.get("l")),
             "the whole of var_perm_ is sorted with the default (key, caller index) order",
             "sort arguments %s: a partial range or a custom comparison does not define positions" % a)
    pre = [s for s in top[:si] if s["k"] in ("ForStmt", "WhileStmt")]
    post = [s for s in top[si + 1:] if s["k"] in ("ForStmt", "WhileStmt")]
    t1.check(len(pre) == 1 and len(post) == 1, "phases", short_loc(pv.loc), "one initialisation loop before and one inverse loop after the sort")
    if len(pre) == 1:
        fr = full_range_loop(pre[0], NVARS, pv)
        body = pre[0]["c"][-1]
        first = kids(body)[0] if body["k"] == "CompoundStmt" else body
        e = strip(first)
        okinit = fr is not None and e["k"] == "CXXOperatorCallExpr" and e.get("op") == "=" and \
            render(call_args(e)[0]) == "var_perm_[%s]" % pre[0]["c"][0]["c"][0]["name"]
        if okinit:
            pair = strip(call_args(e)[1])
            okinit = pair["k"] == "CXXConstructExpr" and len(kids(pair)) == 2 and strip(kids(pair)[1]).get("declId") == fr[0]
        t1.check(okinit, "init-all", short_loc(pre[0].get("l")), "for every caller index i: var_perm_[i] = {key(i), i}",
                 "the initialisation loop does not store {key, i} for every i")
        # .second is never modified afterwards
        wr2 = [n for n in pv.walk() if n["k"] in ("BinaryOperator", "UnaryOperator", "CompoundAssignOperator") and
               (n.get("op") in ("++", "--") or (n.get("op", "").endswith("=") and n.get("op") not in ("==", "!=", "<=", ">="))) and
               strip(kids(n)[0])["k"] == "MemberExpr" and strip(kids(n)[0]).get("name") == "second"]
        t1.check(not wr2, "second-untouched", short_loc(pv.loc), "the caller index stored in .second is never modified")
    if len(post) == 1:
        fr = full_range_loop(post[0], NVARS, pv)
        body = post[0]["c"][-1]
        st = strip(kids(body)[0] if body["k"] == "CompoundStmt" else body)
        i = post[0]["c"][0]["c"][0]["name"]
        want = "var_perm_[var_perm_[%s].second].first = %s" % (i, i)
        t1.check(fr is not None and render(st) == want and (body["k"] != "CompoundStmt" or len(kids(body)) == 1), "inverse-loop",
                 short_loc(post[0].get("l")), "for every position i: " + want, "inverse loop is `%s`" % render(st)[:90])
    vp, vpi = one(FE + "::VPerm"), one(FE + "::VPermInv")
    for g, fld in ((vp, "first"), (vpi, "second")):
        r = [x for x in g.walk() if x["k"] == "ReturnStmt"]
        t1.check(len(r) == 1 and render(kids(r[0])[0]) == "var_perm_[%s].%s" % (g.params[0]["name"], fld), "accessor|%s" % g.name,
                 short_loc(g.loc), "%s(i) returns var_perm_[i].%s" % (g.name, fld), "%s returns `%s`" % (g.name, render(kids(r[0])[0]) if r else "?"))
    init = one(FE + "::Init")
    seq = [c.get("callee", "").split("::")[-1] for c in init.walk() if c["k"] == "CXXMemberCallExpr"]
    t1.check(seq[:2] == ["FillNonlinearVars", "PermuteVars"] and set(seq[2:]) >= {"FillObjNonzeros", "FillColSizes", "FillHeader"},
             "init-order", short_loc(init.loc), "nonlinearity flags are computed before the permutation, everything else after", str(seq))

    # ---- G1 ---------------------------------------------------------------------------
    g1 = rep.rule("C08.G1", "RANGE", "class counters: once per variable, agreeing with the sort key; NL class order", floor=6)
    COUNTERS = ["num_nl_integer_vars_in_objs", "num_linear_binary_vars", "num_linear_integer_vars", "num_nl_vars_in_objs",
                "num_nl_vars_in_cons", "num_nl_vars_in_both", "num_nl_integer_vars_in_both", "num_nl_integer_vars_in_cons"]
    writers = {}
    # the functions that can modify the feeder's state: its members, and helpers that get a counter or the flag vector by
    # reference (analysed once per call site, with the reference parameters read as the arguments they are bound to)
    sites = [(f, {}) for f in funcs if f.qn.startswith(FE + "::")]
    byqn_ = {}
    for f in funcs:
        byqn_.setdefault(f.qn, []).append(f)
    for f in [g_ for g_, _ in list(sites)]:
        for c in f.walk():
            if c["k"] != "CallExpr" or (c.get("callee") or "").startswith(FE + "::"):
                continue
            for h in byqn_.get(c.get("callee") or "", []):
                sub = {}
                for p_, a_ in zip(h.params, call_args(c)):
                    ta = render(a_).replace(" ", "").replace("this->", "")
                    if "&" in (p_.get("ct") or p_.get("t") or "") and ("header_." in ta or ta.startswith("nlv_obj_")):
                        sub[p_["name"]] = ta
                if sub:
                    sites.append((h, sub))

    def rn(sub, node):
        t = render(node).replace(" ", "").replace("this->", "")
        m = re.match(r"^([A-Za-z_]\w*)(.*)$", t)
        return (sub[m.group(1)] + m.group(2)) if m and m.group(1) in sub else t
    for f, sub in sites:
        for n in f.walk():
            tgt = None
            if n["k"] == "UnaryOperator" and n.get("op") in ("++", "--"):
                tgt = strip(kids(n)[0])
            elif n["k"] in ("BinaryOperator", "CompoundAssignOperator") and n.get("op", "").endswith("=") and n.get("op") not in ("==", "!=", "<=", ">="):
                tgt = strip(kids(n)[0])
            if tgt is None:
                continue
            tt = rn(sub, tgt)
            m = re.fullmatch(r"header_\.(\w+)", tt)
            if m and m.group(1) in COUNTERS:
                writers.setdefault(m.group(1), set()).add((f.name, n.get("op")))
    expect_w = {"num_nl_integer_vars_in_objs": {("PermuteVars", "++")}, "num_linear_binary_vars": {("PermuteVars", "++")},
                "num_linear_integer_vars": {("PermuteVars", "++")}, "num_nl_vars_in_objs": {("MarkNonlinearInObj", "++")}}
    for c in COUNTERS:
        got = writers.get(c, set())
        if c == "num_nl_vars_in_objs":
            g1.check(bool(got) and all(op == "++" for _, op in got), "writers|%s" % c, "",
                     "%s is only incremented (by %s); each site is checked for the transition guard" % (c, sorted(x for x, _ in got)),
                     "%s is modified by %s" % (c, sorted(got)))
            continue
        g1.check(got == expect_w.get(c, set()), "writers|%s" % c, "", "%s is modified only by %s" % (c, sorted(expect_w.get(c, set())) or "nobody (stays 0)"),
                 "%s is modified by %s" % (c, sorted(got)))
    # transition guard: every increment of num_nl_vars_in_objs happens exactly when a variable's flag goes false -> true
    def flag_fact(g, cid, pol):
        c = strip(g.nodes[cid])
        while True:
            if c["k"] == "UnaryOperator" and c.get("op") == "!":
                pol = not pol
                c = strip(kids(c)[0])
            elif c["k"] == "CXXMemberCallExpr" and "operator bool" in c.get("callee", ""):
                c = strip(call_object(c))
            else:
                break
        return (render(c).replace(" ", ""), pol)
    nsites = 0
    seen_g = set()
    for g, sub in sites:
        if (g.full, tuple(sorted(sub.items()))) in seen_g:
            continue
        seen_g.add((g.full, tuple(sorted(sub.items()))))
        incs = [n for n in g.walk() if n["k"] == "UnaryOperator" and n.get("op") == "++" and rn(sub, kids(n)[0]).endswith("header_.num_nl_vars_in_objs")]
        sets = [n for n in g.walk() if n["k"] == "CXXOperatorCallExpr" and n.get("op") == "=" and rn(sub, call_args(n)[0]).startswith("nlv_obj_[")]
        for inc in incs:
            nsites += 1
            facts = [flag_fact(g, cid, pol) for cid, pol in g.cfg.facts_at(inc) if pol in (True, False)]
            okm = False
            for st in sets:
                tgt = render(call_args(st)[0]).replace(" ", "")
                if (tgt, False) in facts and cv(call_args(st)[1]) == 1 and \
                        {c_[0] for c_ in g.cfg.facts_at(inc)} == {c_[0] for c_ in g.cfg.facts_at(st)} and \
                        not [a for a in g.ancestors(inc) if a["k"] in ("ForStmt", "WhileStmt") and
                             not any(x["i"] == st["i"] for x in walk(a))]:
                    okm = True
            g1.check(okm, "transition-guard|%s" % g.name, short_loc(inc.get("l")),
                     "num_nl_vars_in_objs is incremented exactly when the variable's flag changes from false to true",
                     "the counter is not tied to a false->true transition of the variable's flag: a variable with several Hessian "
                     "entries is counted several times")
        for st in sets:
            if not incs:
                g1.fail("flag-set-without-count|%s" % g.name, short_loc(st.get("l")), "nlv_obj_ is set in %s without counting the variable" % g.name)
    if not nsites:
        raise AnalysisBroken("C08.G1: no increment of num_nl_vars_in_objs found")
    # case enumeration of the class logic
    if len(pre) == 1:
        lp = pre[0]
        ivar = lp["c"][0]["c"][0]
        body = lp["c"][-1]

        class Ev:
            def __init__(self, env):
                self.env, self.key, self.cnt, self.locals = env, None, {}, {}

            def val(self, n):
                n = strip(n)
                k = n["k"]
                r = render(n).replace(" ", "")
                i = ivar["name"]
                if r in ("nlv_obj_[%s]" % i,) or (k == "CXXMemberCallExpr" and "operator bool" in n.get("callee", "") and "nlv_obj_" in r):
                    return self.env["nlv"]
                if r == "vars.type_":
                    return self.env["has_type"]
                if r == "vars.type_[%s]" % i:
                    if not self.env["has_type"]:
                        raise Conflict("vars.type_[i] read although the type array is absent")
                    return self.env["type"]
                if r == "vars.lower_[%s]" % i:
                    return self.env["lb"]
                if r == "vars.upper_[%s]" % i:
                    return self.env["ub"]
                if k in ("IntegerLiteral", "FloatingLiteral"):
                    return float(n["v"]) if k == "FloatingLiteral" else int(n["v"])
                if "cv" in n and k not in ("DeclRefExpr",):
                    try:
                        return int(n["cv"])
                    except ValueError:
                        return float(n["cv"])
                if k in ("CStyleCastExpr", "CXXStaticCastExpr", "CXXFunctionalCastExpr"):
                    v = self.val(kids(n)[0])
                    return int(v) if "int" in (n.get("ct") or n.get("t") or "") else v
                if k == "CallExpr" and n.get("callee", "").split("::")[-1] in ("fabs", "abs"):
                    return abs(self.val(call_args(n)[0]))
                if k == "UnaryOperator" and n.get("op") == "!":
                    return int(not self.val(kids(n)[0]))
                if k == "UnaryOperator" and n.get("op") == "-":
                    return -self.val(kids(n)[0])
                if k == "BinaryOperator":
                    a_, b_ = kids(n)
                    op = n["op"]
                    if op == "&&":
                        return int(bool(self.val(a_)) and bool(self.val(b_)))
                    if op == "||":
                        return int(bool(self.val(a_)) or bool(self.val(b_)))
                    x, y = self.val(a_), self.val(b_)
                    return {"+": lambda: x + y, "-": lambda: x - y, "*": lambda: x * y, "==": lambda: int(x == y), "!=": lambda: int(x != y),
                            "<": lambda: int(x < y), "<=": lambda: int(x <= y), ">": lambda: int(x > y), ">=": lambda: int(x >= y)}[op]()
                if k == "DeclRefExpr" and n.get("declId") == ivar["declId"]:
                    return "i"
                if k == "DeclRefExpr" and n.get("declId") in self.locals:
                    return self.locals[n["declId"]]
                if k == "ConditionalOperator":
                    c_, a_, b_ = kids(n)
                    return self.val(a_ if self.val(c_) else b_)
                raise AnalysisBroken("C08.G1: expression `%s` outside the fragment" % render(n)[:60])

            def run(self, s):
                k = s["k"]
                if k == "CompoundStmt":
                    for c_ in kids(s):
                        self.run(c_)
                elif k == "IfStmt":
                    ks = [x for x in s.get("c", []) if x is not None]
                    if self.val(ks[0]):
                        self.run(ks[1])
                    elif len(ks) > 2:
                        self.run(ks[2])
                elif k in ("ExprWithCleanups",):
                    self.run(kids(s)[0])
                elif k == "CXXOperatorCallExpr" and s.get("op") == "=" and render(call_args(s)[0]) == "var_perm_[%s]" % ivar["name"]:
                    pair = strip(call_args(s)[1])
                    self.key = self.val(kids(pair)[0])
                elif k == "UnaryOperator" and s.get("op") == "++":
                    t = render(kids(s)[0])
                    if t == "var_perm_[%s].first" % ivar["name"]:
                        self.key += 1
                    elif t.startswith("header_."):
                        self.cnt[t.split(".")[-1]] = self.cnt.get(t.split(".")[-1], 0) + 1
                    else:
                        raise AnalysisBroken("C08.G1: increment of `%s` outside the fragment" % t)
                elif k == "NullStmt" or s.get("m") == "assert":
                    pass
                elif k == "DeclStmt":
                    for v_ in kids(s):
                        if v_["k"] == "VarDecl" and kids(v_):
                            self.locals[v_["declId"]] = self.val(kids(v_)[0])
                elif k == "ContinueStmt":
                    raise NextVar()
                else:
                    raise AnalysisBroken("C08.G1: statement `%s` outside the fragment" % render(s)[:60])

        cases = 0
        bad = []
        keys = {}
        for nlv, has_type, ty_, (lb, ub) in itertools.product((0, 1), (0, 1), (0, 1), ((0.0, 1.0), (-0.0, 1.0), (0.0, 2.0), (-3.0, 20.0), (1.0, 1.0), (0.0, math.inf), (0.0, 0.0), (0.0, 0.5), (-1.0, 1.0), (1e-9, 1.0))):
            ev = Ev(dict(nlv=nlv, has_type=has_type, type=ty_, lb=lb, ub=ub))
            try:
                try:
                    ev.run(body)
                except NextVar:
                    pass
            except Conflict as e:
                bad.append(str(e))
                continue
            cases += 1
            integer = bool(has_type and ty_)
            binary = integer and abs(lb) == 0.0 and ub == 1.0
            cls = ("nl-int" if integer else "nl-cont") if nlv else (("lin-bin" if binary else "lin-int") if integer else "lin-cont")
            want = {"nl-cont": {}, "lin-cont": {}, "nl-int": {"num_nl_integer_vars_in_objs": 1}, "lin-bin": {"num_linear_binary_vars": 1},
                    "lin-int": {"num_linear_integer_vars": 1}}[cls]
            if ev.cnt != want:
                bad.append("a %s variable (lb %g, ub %g) increments %s, expected %s" % (cls, lb, ub, ev.cnt or "nothing", want or "nothing"))
            keys.setdefault(cls, set()).add(ev.key)
        order = ["nl-cont", "nl-int", "lin-cont", "lin-bin", "lin-int"]
        if all(len(keys.get(c, ())) == 1 for c in order):
            kv = [next(iter(keys[c])) for c in order]
            if not all(kv[j] < kv[j + 1] for j in range(4)):
                bad.append("sort keys %s do not put the classes in NL order %s" % (dict(zip(order, kv)), order))
        else:
            bad.append("a class has more than one sort key: %s" % {c: sorted(keys.get(c, ())) for c in order})
        g1.check(not bad, "class-cases", short_loc(lp.get("l")), "%d (nonlinear, type array, type, bounds) cases: one counter per class, keys in NL class order" % cases,
                 "; ".join(bad[:3]))
        rep.extra["g1_cases"] = cases
        fr = full_range_loop(lp, NVARS, pv)
        g1.check(fr is not None, "once-per-variable", short_loc(lp.get("l")), "the class loop visits every variable exactly once")

    # ---- S1 ---------------------------------------------------------------------------
    s1 = rep.rule("C08.S1", "TABLE", "the traversals of the Hessian in FillNonlinearVars, FillObjNonzeros, FeedObjExpression and "
                  "ComputeObjValue visit the same (row, entry) pairs; factor 0.5 in writer and evaluator", floor=5)
    sib = [one(FE + "::FillNonlinearVars"), one(FE + "::FillObjNonzeros")] + all_of(FE + "::FeedObjExpression") + [one("mp::NLModel::ComputeObjValue")]
    skels = {}
    pairs = {}
    for f in sib:
        T = FuncTyper(f, Spaces())
        inner = None
        for lp in f.walk():
            if lp["k"] == "ForStmt" and any(x["k"] == "ForStmt" for c_ in kids(lp["c"][-1] if lp["c"][-1] else lp) for x in walk(c_)):
                outer = lp
                inner = [x for x in walk(lp["c"][-1]) if x["k"] == "ForStmt"][0]
                break
        if inner is None:
            s1.fail("skeleton|%s|%s" % (f.name, inst(f)), short_loc(f.loc), "no nested traversal of the Hessian found")
            continue
        norm = lambda s: s.replace("Q_.", "Q.").replace("NLME().", "").replace(" ", "")
        sub = lambda s, a, b: re.sub(r"(?<![A-Za-z0-9_])%s(?![A-Za-z0-9_])" % re.escape(a), b, s)
        oi = outer["c"][0]["c"][0]["name"]
        ii = inner["c"][0]["c"][0]["name"]
        obody = outer["c"][-1]
        tail = [render(x) for x in kids(obody) if x["k"] not in ("ForStmt",)]
        # initial pos_end
        pe = [v for v in f.walk() if v["k"] == "VarDecl" and v.get("name") == "pos_end"]
        sk = (norm(render(outer["c"][0])).split("=")[-1], sub(render(outer["c"][2]), oi, "I") if outer["c"][2] else "",
              sub(sub(norm(render(inner["c"][0])), ii, "p"), oi, "I").split("=", 1)[-1],
              sub(norm(render(inner["c"][2])), ii, "p"), sub(norm(render(inner["c"][3])), ii, "p"),
              tuple(sub(norm(t), oi, "I") for t in tail), norm(render(kids(pe[0])[0])) if pe else "?")
        skels[(f.name, inst(f))] = sk
        # the pair of variable indices used per entry
        ib = inner["c"][-1]
        idx = set()
        for n in walk(ib):
            if n["k"] in ("CXXMemberCallExpr", "CallExpr") and n.get("callee", "").split("::")[-1] in ("VPerm", "MarkNonlinearInObj"):
                idx.add(sub(sub(norm(render(call_args(n)[0])), ii, "p"), oi, "I"))
            elif n["k"] in ("CXXMemberCallExpr", "CallExpr"):
                for kx, kind, tgt in helper_summary(HELPERS.get(n.get("calleeFull") or "") or HELPERS.get(n.get("callee") or "")):
                    nm_ = (tgt if isinstance(tgt, str) else (T.alias(call_args(n)[tgt]) if tgt < len(call_args(n)) else None)) if kind == "arr" else tgt
                    if kx < len(call_args(n)) and (nm_ in ("obj_grad_supp_", "x", "nlv_obj_") or nm_ == FE + "::VPerm"):
                        idx.add(sub(sub(norm(render(call_args(n)[kx])), ii, "p"), oi, "I"))
            s_ = T.subscript(n)
            if s_ and T.alias(s_[0]) in ("obj_grad_supp_", "x", "nlv_obj_"):
                idx.add(sub(sub(norm(render(s_[1])), ii, "p"), oi, "I"))
        pairs[(f.name, inst(f))] = frozenset(idx)
    from collections import Counter
    ref = Counter(skels.values()).most_common(1)[0][0] if skels else None
    for k_, sk in sorted(skels.items()):
        s1.check(sk == ref, "skeleton|%s|%s" % k_, "", "traversal %s" % (sk,), "traversal %s differs from its siblings' %s" % (sk, ref))
    want_sk = ("NumCols()", "I--", "Q.start_[I]", "p!=pos_end", "++p", ("pos_end=Q.start_[I]",), "Q.num_nz_")
    if ref != want_sk:
        raise AnalysisBroken("C08.S1: the common Hessian traversal %s is not the recognised form %s (rows from last to first, "
                             "entries [start_[row], start of the next row)); re-read and re-freeze" % (ref, want_sk))
    s1.ok("skeleton-covers-entries", "", "rows last to first, entries [start_[row], previous row's start): every entry is visited once with its row")
    refp = frozenset({"I", "Q.index_[p]"})
    for k_, p_ in sorted(pairs.items()):
        s1.check(p_ == refp, "pair|%s|%s" % k_, "", "every entry touches variables {row I, Q.index_[p]}",
                 "entry touches %s, expected {I, Q.index_[p]}: a variable of the product is missed" % sorted(p_))
    for f in all_of(FE + "::FeedObjExpression") + [one("mp::NLModel::ComputeObjValue")]:
        half = [n for n in f.walk() if n["k"] == "BinaryOperator" and n.get("op") == "*" and
                any(strip(x)["k"] == "FloatingLiteral" and float(strip(x).get("v", 0)) == 0.5 for x in kids(n)) and "value_[" in render(n)]
        s1.check(len(half) == 1, "half|%s|%s" % (f.name, inst(f)), short_loc(f.loc), "each entry contributes 0.5 * value * x * y")
    con = one("mp::NLModel::ComputeObjValue")
    r0 = [v for v in con.walk() if v["k"] == "VarDecl" and v.get("name") == "result"]
    r0txt = [x.get("name") for x in walk(r0[0]) if x["k"] == "MemberExpr"] if r0 else []
    s1.check(len(r0) == 1 and r0txt == ["obj_c0_"], "offset", short_loc(con.loc),
             "the evaluator starts from the objective offset")

    # ---- N1 ---------------------------------------------------------------------------
    n1 = rep.rule("C08.N1", "GUARD", "optional caller arrays (null-checked somewhere) are null-checked before every subscript", floor=6)
    OPTIONAL = set()
    derefs = []
    scope = [f for f in funcs if f.qn.startswith((FE + "::", "mp::NLModel::", SH + "::"))]
    for f in scope:
        T = FuncTyper(f, Spaces())
        for n in f.walk():
            # beliefs: pointer tested for null
            if n["k"] == "ImplicitCastExpr" and n.get("ck") == "PointerToBoolean":
                a = T.alias(kids(n)[0])
                if a:
                    OPTIONAL.add(a)
            if n["k"] == "ArraySubscriptExpr":
                a = T.alias(kids(n)[0])
                if a:
                    derefs.append((f, n, a, T))
    n1.check(OPTIONAL >= {"ObjCoefficients", "ColNames", "RowNames", "ColData.type_"}, "beliefs", "",
             "optional arrays: %s" % sorted(OPTIONAL), "expected at least ObjCoefficients, ColNames, RowNames, ColData.type_; found %s" % sorted(OPTIONAL))
    seen = set()
    for f, n, a, T in derefs:
        if a not in OPTIONAL:
            continue
        ok = False
        for cid, pol in f.cfg.facts_at(n):
            c = strip(f.nodes[cid])
            if pol is True and T.alias(c) == a:
                ok = True
            if pol is True and c["k"] == "DeclRefExpr":
                v = T.locals.get(c.get("declId"))
                if v is not None and kids(v) and T.alias(kids(v)[0]) == a:
                    ok = True
            # the subscript is the ':'-side of `p ? p[i] : dflt`
        for anc in f.ancestors(n):
            if anc["k"] == "ConditionalOperator":
                c_, a_, b_ = kids(anc)
                if T.alias(c_) == a and any(x["i"] == n["i"] for x in walk(a_)):
                    ok = True
            if anc["k"] == "BinaryOperator" and anc.get("op") == "&&":
                l_, r_ = kids(anc)
                if any(x["i"] == n["i"] for x in walk(r_)) and any(T.alias(x) == a and x["k"] in ("MemberExpr", "DeclRefExpr", "CXXMemberCallExpr")
                                                                      for x in walk(l_)):
                    ok = True
        key = "deref|%s|%s|%s" % (f.name, a, inst(f))
        if key in seen and ok:
            continue
        seen.add(key)
        n1.check(ok, key, short_loc(n.get("l")), "%s[...] is reached only when the pointer is non-null" % a,
                 "%s is optional (null-checked elsewhere) but `%s` is evaluated without a null check" % (a, render(n)[:50]))

    # ---- O1 ---------------------------------------------------------------------------
    o1 = rep.rule("C08.O1", "PATH", "NLSolver::Solve(model) recomputes the objective value from the un-permuted solution", floor=2)
    sv = [f for f in funcs if f.qn == "mp::NLSolver::Solve" and len(f.params) == 3 and "NLModel" in (f.params[0].get("t") or "")]
    if not sv:
        raise AnalysisBroken("NLSolver::Solve(const NLModel&, ...) not found")
    g = sv[0]
    asg = [n for n in g.walk() if n["k"] == "BinaryOperator" and n.get("op") == "=" and render(kids(n)[0]).endswith("obj_val_")]
    rd = [n for n in g.walk() if n["k"] == "CXXMemberCallExpr" and n.get("callee") == "mp::NLSolver::ReadSolution"]
    ok = len(asg) == 1 and len(rd) == 1 and render(kids(asg[0])[1]).replace(" ", "") in ("mdl.ComputeObjValue(sol.x_.data())",) and g.cfg.dominates(rd[0], asg[0])
    o1.check(ok, "recompute", short_loc(g.loc), "sol.obj_val_ = mdl.ComputeObjValue(sol.x_.data()) after ReadSolution()",
             "objective assignment: %s" % [render(n) for n in asg])
    guard = norm_facts(g, asg[0], canon=True) if asg else []
    nonempty = lambda t, pol: (pol and re.fullmatch(r"sol\.x_\.size\(\)(!=0|>0)?|0(!=|<)sol\.x_\.size\(\)", t) is not None) or \
        (not pol and re.fullmatch(r"sol\.x_\.empty\(\)|!sol\.x_\.size\(\)|0==sol\.x_\.size\(\)|sol\.x_\.size\(\)==0|sol\.x_\.size\(\)<1", t) is not None)
    o1.check(any(nonempty(t, pol) for t, pol in guard), "only-with-values", short_loc(g.loc), "the value is computed only when primal values were returned")
    rs = [f for f in funcs if f.qn == "mp::NLSolver::ReadSolution" and not f.params]
    if rs:
        h = rs[0]
        ctor = [n for n in h.walk() if n["k"] in ("CXXConstructExpr", "CXXTemporaryObjectExpr") and n.get("callee", "").startswith(SH + "::")]
        o1.check(len(ctor) == 1 and [render(x) for x in kids(ctor[0])][1:2] == ["pd_"], "handler-gets-prepro-data", short_loc(h.loc),
                 "the SOL handler receives the permutation exported when the model was loaded")
        lm = [f for f in funcs if f.qn == "mp::NLSolver::LoadModel" and f.params and "NLModel" in (f.params[0].get("t") or "")]
        if lm:
            ex = [n for n in lm[0].walk() if n["k"] == "CXXMemberCallExpr" and n.get("callee") == FE + "::ExportPreproData"]
            o1.check(len(ex) == 1 and render(call_args(ex[0])[0]) == "pd_", "load-exports-prepro-data", short_loc(lm[0].loc),
                     "LoadModel(NLModel) exports the permutation into pd_")
    return rep
