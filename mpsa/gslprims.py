"""Table of GSL primitives for mpsa.gslsym: for each GSL function name used in a binding either a
closed form / reduction to *canonical* transcendentals ('canon'), and for each canonical transcendental
its derivative rule ('d') and its value in a random model of the function field ('ev').

The mathematics is written from the standard references (DLMF chapters 5-10, 13, 14, 18, 19, 25;
Abramowitz-Stegun), not from amplgsl.cc.  tool/gslprims_validate.py compares every entry with the
installed libgsl (development aid, not part of any check).
"""
import math
from .gslsym import C, mk, neg, ite, Unsupported, DomainError

SQRT2 = math.sqrt(2.0)
SQRTPI = math.sqrt(math.pi)


def P(name, *args):
    return ("prim", name, tuple(args))


def add(a, b): return mk("+", a, b)
def sub(a, b): return mk("-", a, b)
def mul(a, b): return mk("*", a, b)
def div(a, b): return mk("/", a, b)
def fn(n, a): return ("fn", n, a)
def powc(a, p): return ("pow", a, C(p))
def cmp_(op, a, b): return ("cmp", op, a, b)


def concrete(e, what):
    if e[0] != "c":
        raise Unsupported("%s must be a concrete number here" % what)
    return e[1]


def concrete_int(e, what):
    v = concrete(e, what)
    if v != math.floor(v):
        raise Unsupported("%s must be an integer" % what)
    return int(v)


def domerr(msg):
    return ("prim", "__domerr", (C(0),), msg)


T = {}


def _ev_domerr(a, M):
    raise DomainError("outside the domain")


T["__domerr"] = dict(ev=_ev_domerr, d=lambda a: [C(0)])


# ---------------------------------------------------------------------------------------------
# cylindrical Bessel functions: canonical J, Y, I, K (order, x), free with three-term recurrences
# ---------------------------------------------------------------------------------------------
def _cyl(fam, up, positive):
    """up(nu, x, f_nu, f_num1) -> f_{nu+1};  the downward step is the same relation solved for f_{nu-1}"""
    def ev(a, M):
        nu, x = a
        if x == 0 or (positive and x < 0):
            raise DomainError("%s at x=%r" % (fam, x))
        fl = math.floor(nu)
        fr = nu - fl
        steps = int(fl)
        if abs(steps) > 14:
            raise DomainError("order too far from the basis")
        b0 = M.free((fam, x, fr, 0))
        b1 = M.free((fam, x, fr, 1))
        if steps == 0:
            return b0
        if steps == 1:
            return b1
        if steps > 1:
            lo, hi, o = b0, b1, fr + 1
            for _ in range(steps - 1):
                lo, hi = hi, up(o, x, hi, lo)
                o += 1
            return hi
        lo, hi, o = b0, b1, fr          # lo = f_o, hi = f_{o+1}; go down
        for _ in range(-steps):
            lo, hi = down(o, x, lo, hi), lo
            o -= 1
        return lo

    def down(o, x, f_o, f_op1):
        # f_{o+1} = up(o, x, f_o, f_{o-1}) is linear in f_{o-1}: solve
        a0 = up(o, x, f_o, 0.0)
        a1 = up(o, x, f_o, 1.0)
        return (f_op1 - a0) / (a1 - a0)
    return ev


T["J"] = dict(ev=_cyl("J", lambda o, x, f, fm: 2 * o / x * f - fm, False),
              d=lambda a: [None, sub(P("J", sub(a[0], C(1)), a[1]), mul(div(a[0], a[1]), P("J", a[0], a[1])))])
T["Y"] = dict(ev=_cyl("Y", lambda o, x, f, fm: 2 * o / x * f - fm, True),
              d=lambda a: [None, sub(P("Y", sub(a[0], C(1)), a[1]), mul(div(a[0], a[1]), P("Y", a[0], a[1])))])
T["I"] = dict(ev=_cyl("I", lambda o, x, f, fm: fm - 2 * o / x * f, False),
              d=lambda a: [None, sub(P("I", sub(a[0], C(1)), a[1]), mul(div(a[0], a[1]), P("I", a[0], a[1])))])
T["K"] = dict(ev=_cyl("K", lambda o, x, f, fm: fm + 2 * o / x * f, True),
              d=lambda a: [None, sub(neg(P("K", sub(a[0], C(1)), a[1])), mul(div(a[0], a[1]), P("K", a[0], a[1])))])


def _canon(f):
    return dict(canon=f)


def _emabs(x):
    return fn("exp", neg(fn("fabs", x)))


for _n, _k in (("J", "J"), ("Y", "Y"), ("I", "I"), ("K", "K")):
    T["gsl_sf_bessel_%s0" % _n] = _canon(lambda a, k=_k: P(k, C(0), a[0]))
    T["gsl_sf_bessel_%s1" % _n] = _canon(lambda a, k=_k: P(k, C(1), a[0]))
    T["gsl_sf_bessel_%sn" % _n] = _canon(lambda a, k=_k: P(k, a[0], a[1]))
    T["gsl_sf_bessel_%snu" % _n] = _canon(lambda a, k=_k: P(k, a[0], a[1]))
T["gsl_sf_bessel_I0_scaled"] = _canon(lambda a: mul(_emabs(a[0]), P("I", C(0), a[0])))
T["gsl_sf_bessel_I1_scaled"] = _canon(lambda a: mul(_emabs(a[0]), P("I", C(1), a[0])))
T["gsl_sf_bessel_In_scaled"] = _canon(lambda a: mul(_emabs(a[1]), P("I", a[0], a[1])))
T["gsl_sf_bessel_Inu_scaled"] = _canon(lambda a: mul(_emabs(a[1]), P("I", a[0], a[1])))
T["gsl_sf_bessel_K0_scaled"] = _canon(lambda a: mul(fn("exp", a[0]), P("K", C(0), a[0])))
T["gsl_sf_bessel_K1_scaled"] = _canon(lambda a: mul(fn("exp", a[0]), P("K", C(1), a[0])))
T["gsl_sf_bessel_Kn_scaled"] = _canon(lambda a: mul(fn("exp", a[1]), P("K", a[0], a[1])))
T["gsl_sf_bessel_Knu_scaled"] = _canon(lambda a: mul(fn("exp", a[1]), P("K", a[0], a[1])))
T["gsl_sf_bessel_lnKnu"] = _canon(lambda a: fn("log", P("K", a[0], a[1])))


# ---------------------------------------------------------------------------------------------
# spherical Bessel functions of integer order: elementary closed forms by recurrence
# ---------------------------------------------------------------------------------------------
def _sph(kind, l, x):
    if l < 0:
        return domerr("order < 0")
    s, c = fn("sin", x), fn("cos", x)
    sh, ch = fn("sinh", x), fn("cosh", x)
    if kind == "j":
        f0, f1 = div(s, x), sub(div(s, mul(x, x)), div(c, x))
        step = lambda k, fk, fkm: sub(mul(div(C(2 * k + 1), x), fk), fkm)
    elif kind == "y":
        f0, f1 = neg(div(c, x)), sub(neg(div(c, mul(x, x))), div(s, x))
        step = lambda k, fk, fkm: sub(mul(div(C(2 * k + 1), x), fk), fkm)
    elif kind == "i":       # scaled by exp(-|x|)
        e = _emabs(x)
        f0, f1 = mul(e, div(sh, x)), mul(e, div(sub(mul(x, ch), sh), mul(x, x)))
        step = lambda k, fk, fkm: sub(fkm, mul(div(C(2 * k + 1), x), fk))
    else:                   # k scaled by exp(x):  k0 = pi/(2x) e^-x
        f0 = div(C(math.pi / 2), x)
        f1 = mul(div(C(math.pi / 2), x), add(C(1), div(C(1), x)))
        step = lambda k, fk, fkm: add(fkm, mul(div(C(2 * k + 1), x), fk))
    if l == 0:
        return f0
    fkm, fk = f0, f1
    for k in range(1, l):
        fkm, fk = fk, step(k, fk, fkm)
    return fk


for _g, _kd in (("j", "j"), ("y", "y")):
    for _o in (0, 1, 2):
        T["gsl_sf_bessel_%s%d" % (_g, _o)] = _canon(lambda a, kd=_kd, o=_o: _sph(kd, o, a[0]))
    T["gsl_sf_bessel_%sl" % _g] = _canon(lambda a, kd=_kd: _sph(kd, concrete_int(a[0], "order l"), a[1]))
for _g, _kd in (("i", "i"), ("k", "k")):
    for _o in (0, 1, 2):
        T["gsl_sf_bessel_%s%d_scaled" % (_g, _o)] = _canon(lambda a, kd=_kd, o=_o: _sph(kd, o, a[0]))
    T["gsl_sf_bessel_%sl_scaled" % _g] = _canon(lambda a, kd=_kd: _sph(kd, concrete_int(a[0], "order l"), a[1]))


# ---------------------------------------------------------------------------------------------
# Airy functions
# ---------------------------------------------------------------------------------------------
def _free1(name, lo=0.3, hi=1.7, dom=None):
    def ev(a, M):
        if dom is not None and not dom(a):
            raise DomainError("%s%r" % (name, tuple(a)))
        return M.free((name,) + tuple(a), lo, hi)
    return ev


T["Ai"] = dict(ev=_free1("Ai"), d=lambda a: [P("Aip", a[0])])
T["Aip"] = dict(ev=_free1("Aip"), d=lambda a: [mul(a[0], P("Ai", a[0]))])
T["Bi"] = dict(ev=_free1("Bi"), d=lambda a: [P("Bip", a[0])])
T["Bip"] = dict(ev=_free1("Bip"), d=lambda a: [mul(a[0], P("Bi", a[0]))])


def _airy_scale(x, sign):
    z = mul(C(sign * 2.0 / 3.0), mul(x, fn("sqrt", fn("fabs", x))))
    return ite(cmp_(">", x, C(0)), fn("exp", z), C(1))


T["gsl_sf_airy_Ai"] = _canon(lambda a: P("Ai", a[0]))
T["gsl_sf_airy_Bi"] = _canon(lambda a: P("Bi", a[0]))
T["gsl_sf_airy_Ai_deriv"] = _canon(lambda a: P("Aip", a[0]))
T["gsl_sf_airy_Bi_deriv"] = _canon(lambda a: P("Bip", a[0]))
T["gsl_sf_airy_Ai_scaled"] = _canon(lambda a: mul(_airy_scale(a[0], 1), P("Ai", a[0])))
T["gsl_sf_airy_Ai_deriv_scaled"] = _canon(lambda a: mul(_airy_scale(a[0], 1), P("Aip", a[0])))
T["gsl_sf_airy_Bi_scaled"] = _canon(lambda a: mul(_airy_scale(a[0], -1), P("Bi", a[0])))
T["gsl_sf_airy_Bi_deriv_scaled"] = _canon(lambda a: mul(_airy_scale(a[0], -1), P("Bip", a[0])))

# ---------------------------------------------------------------------------------------------
# error function family, gaussian distribution
# ---------------------------------------------------------------------------------------------
T["erf"] = dict(ev=_free1("erf", -0.8, 0.8),
                d=lambda a: [mul(C(2 / SQRTPI), fn("exp", neg(mul(a[0], a[0]))))])


def _Z(x): return mul(C(1 / math.sqrt(2 * math.pi)), fn("exp", mul(C(-0.5), mul(x, x))))
def _Q(x): return mul(C(0.5), sub(C(1), P("erf", div(x, C(SQRT2)))))


T["gsl_sf_erf"] = _canon(lambda a: P("erf", a[0]))
T["gsl_sf_erfc"] = _canon(lambda a: sub(C(1), P("erf", a[0])))
T["gsl_sf_log_erfc"] = _canon(lambda a: fn("log", sub(C(1), P("erf", a[0]))))
T["gsl_sf_erf_Z"] = _canon(lambda a: _Z(a[0]))
T["gsl_sf_erf_Q"] = _canon(lambda a: _Q(a[0]))
T["gsl_sf_hazard"] = _canon(lambda a: div(_Z(a[0]), _Q(a[0])))
T["gsl_cdf_ugaussian_P"] = _canon(lambda a: sub(C(1), _Q(a[0])))
T["gsl_cdf_ugaussian_Q"] = _canon(lambda a: _Q(a[0]))
T["gsl_cdf_gaussian_P"] = _canon(lambda a: sub(C(1), _Q(div(a[0], a[1]))))
T["gsl_cdf_gaussian_Q"] = _canon(lambda a: _Q(div(a[0], a[1])))
T["gsl_ran_ugaussian_pdf"] = _canon(lambda a: _Z(a[0]))
T["gsl_ran_gaussian_pdf"] = _canon(lambda a: div(_Z(div(a[0], a[1])), fn("fabs", a[1])))
T["Pinv"] = dict(ev=_free1("Pinv", -1.2, 1.2, dom=lambda a: 0 < a[0] < 1),
                 d=lambda a: [div(C(1), _Z(P("Pinv", a[0])))])
T["gsl_cdf_ugaussian_Pinv"] = _canon(lambda a: P("Pinv", a[0]))
T["gsl_cdf_ugaussian_Qinv"] = _canon(lambda a: neg(P("Pinv", a[0])))
T["gsl_ran_exponential_pdf"] = _canon(lambda a: ite(cmp_("<", a[0], C(0)), C(0), div(fn("exp", neg(div(a[0], a[1]))), a[1])))
T["gsl_ran_laplace_pdf"] = _canon(lambda a: div(fn("exp", neg(div(fn("fabs", a[0]), a[1]))), mul(C(2), a[1])))

# ---------------------------------------------------------------------------------------------
# exponential / trigonometric integrals and friends
# ---------------------------------------------------------------------------------------------
T["E1"] = dict(ev=_free1("E1", dom=lambda a: a[0] != 0), d=lambda a: [neg(div(fn("exp", neg(a[0])), a[0]))])
T["Ei"] = dict(ev=_free1("Ei", dom=lambda a: a[0] != 0), d=lambda a: [div(fn("exp", a[0]), a[0])])
T["Shi"] = dict(ev=_free1("Shi"), d=lambda a: [div(fn("sinh", a[0]), a[0])])
T["Chi"] = dict(ev=_free1("Chi", dom=lambda a: a[0] != 0), d=lambda a: [div(fn("cosh", a[0]), a[0])])
T["Si"] = dict(ev=_free1("Si"), d=lambda a: [div(fn("sin", a[0]), a[0])])
T["Ci"] = dict(ev=_free1("Ci", dom=lambda a: a[0] > 0), d=lambda a: [div(fn("cos", a[0]), a[0])])
T["atanint"] = dict(ev=_free1("atanint"), d=lambda a: [div(fn("atan", a[0]), a[0])])
T["expint3"] = dict(ev=_free1("expint3", dom=lambda a: a[0] >= 0), d=lambda a: [fn("exp", neg(powc(a[0], 3)))])
T["dawson"] = dict(ev=_free1("dawson"), d=lambda a: [sub(C(1), mul(mul(C(2), a[0]), P("dawson", a[0])))])
T["clausen"] = dict(ev=_free1("clausen"),
                    d=lambda a: [neg(fn("log", fn("fabs", mul(C(2), fn("sin", mul(C(0.5), a[0]))))))])
T["dilog"] = dict(ev=_free1("dilog"), d=lambda a: [neg(div(fn("log", fn("fabs", sub(C(1), a[0]))), a[0]))])
for _g, _k in (("gsl_sf_expint_E1", "E1"), ("gsl_sf_expint_Ei", "Ei"), ("gsl_sf_Shi", "Shi"), ("gsl_sf_Chi", "Chi"),
               ("gsl_sf_Si", "Si"), ("gsl_sf_Ci", "Ci"), ("gsl_sf_atanint", "atanint"), ("gsl_sf_expint_3", "expint3"),
               ("gsl_sf_dawson", "dawson"), ("gsl_sf_clausen", "clausen"), ("gsl_sf_dilog", "dilog")):
    T[_g] = _canon(lambda a, k=_k: P(k, a[0]))


def _En(n, x):
    """E_n(x), n >= 0 integer, reduced to E1:  E_0 = e^-x / x,  n E_{n+1} = e^-x - x E_n"""
    if n < 0:
        return domerr("E_n, n < 0")
    ex = fn("exp", neg(x))
    if n == 0:
        return div(ex, x)
    e = P("E1", x)
    for k in range(1, n):
        e = div(sub(ex, mul(x, e)), C(k))
    return e


T["gsl_sf_expint_E2"] = _canon(lambda a: _En(2, a[0]))
T["gsl_sf_expint_En"] = _canon(lambda a: _En(concrete_int(a[0], "order n"), a[1]))

# transport and Debye functions
for _o in (2, 3, 4, 5):
    T["transport%d" % _o] = dict(ev=_free1("transport%d" % _o, dom=lambda a: a[0] >= 0),
                                 d=lambda a, o=_o: [div(mul(powc(a[0], o), fn("exp", a[0])),
                                                        powc(sub(fn("exp", a[0]), C(1)), 2))])
    T["gsl_sf_transport_%d" % _o] = _canon(lambda a, o=_o: P("transport%d" % o, a[0]))
for _o in (1, 2, 3, 4, 5, 6):
    T["debye%d" % _o] = dict(ev=_free1("debye%d" % _o, dom=lambda a: a[0] >= 0),
                             d=lambda a, o=_o: [mul(C(o), sub(div(C(1), sub(fn("exp", a[0]), C(1))),
                                                             div(P("debye%d" % o, a[0]), a[0])))])
    T["gsl_sf_debye_%d" % _o] = _canon(lambda a, o=_o: P("debye%d" % o, a[0]))

# ---------------------------------------------------------------------------------------------
# gamma family
# ---------------------------------------------------------------------------------------------
T["Gamma"] = dict(ev=_free1("Gamma", 0.5, 2.0), d=lambda a: [mul(P("Gamma", a[0]), P("pg", C(0), a[0]))])
T["pg"] = dict(ev=_free1("pg", -1.5, 1.5), d=lambda a: [None, P("pg", add(a[0], C(1)), a[1])])
T["gsl_sf_gamma"] = _canon(lambda a: P("Gamma", a[0]))
T["gsl_sf_lngamma"] = _canon(lambda a: fn("log", P("Gamma", a[0])))
T["gsl_sf_gammainv"] = _canon(lambda a: div(C(1), P("Gamma", a[0])))
T["gsl_sf_gammastar"] = _canon(lambda a: div(P("Gamma", a[0]),
                                             mul(C(math.sqrt(2 * math.pi)),
                                                 mul(("pow", a[0], sub(a[0], C(0.5))), fn("exp", neg(a[0]))))))
T["gsl_sf_psi"] = _canon(lambda a: P("pg", C(0), a[0]))
T["gsl_sf_psi_1"] = _canon(lambda a: P("pg", C(1), a[0]))
T["gsl_sf_psi_n"] = _canon(lambda a: P("pg", a[0], a[1]))
T["gsl_sf_beta"] = _canon(lambda a: div(mul(P("Gamma", a[0]), P("Gamma", a[1])), P("Gamma", add(a[0], a[1]))))
T["gsl_sf_lnbeta"] = _canon(lambda a: fn("log", div(mul(P("Gamma", a[0]), P("Gamma", a[1])), P("Gamma", add(a[0], a[1])))))
T["Ginc"] = dict(ev=_free1("Ginc", dom=lambda a: a[1] > 0),
                 d=lambda a: [None, neg(mul(("pow", a[1], sub(a[0], C(1))), fn("exp", neg(a[1]))))])
T["gsl_sf_gamma_inc"] = _canon(lambda a: P("Ginc", a[0], a[1]))

# ---------------------------------------------------------------------------------------------
# Fermi-Dirac integrals  F_j' = F_{j-1}
# ---------------------------------------------------------------------------------------------
def _fd_ev(a, M):
    j, x = a
    if j <= 0 and j == math.floor(j):
        raise DomainError("F_j, j <= 0 has a closed form / is not defined")
    return M.free(("FD", j, x))


def _fd(j, x):
    """complete Fermi-Dirac integral; closed forms for j = -1, 0"""
    if j[0] == "c" and j[1] == -1:
        return div(fn("exp", x), add(C(1), fn("exp", x)))
    if j[0] == "c" and j[1] == 0:
        return fn("log", add(C(1), fn("exp", x)))
    if j[0] == "c" and j[1] < -1 and j[1] == math.floor(j[1]):
        return domerr("F_j, j < -1")
    return P("FD", j, x)


def _fd_d(a):
    jm = sub(a[0], C(1))
    return [None, _fd(jm, a[1])]


T["FD"] = dict(ev=_fd_ev, d=_fd_d)
T["gsl_sf_fermi_dirac_m1"] = _canon(lambda a: _fd(C(-1), a[0]))
T["gsl_sf_fermi_dirac_0"] = _canon(lambda a: _fd(C(0), a[0]))
T["gsl_sf_fermi_dirac_1"] = _canon(lambda a: _fd(C(1), a[0]))
T["gsl_sf_fermi_dirac_2"] = _canon(lambda a: _fd(C(2), a[0]))
T["gsl_sf_fermi_dirac_int"] = _canon(lambda a: _fd(C(float(concrete_int(a[0], "order j"))), a[1]))
T["gsl_sf_fermi_dirac_mhalf"] = _canon(lambda a: P("FD", C(-0.5), a[0]))
T["gsl_sf_fermi_dirac_half"] = _canon(lambda a: P("FD", C(0.5), a[0]))
T["gsl_sf_fermi_dirac_3half"] = _canon(lambda a: P("FD", C(1.5), a[0]))
T["gsl_sf_fermi_dirac_inc_0"] = _canon(lambda a: sub(fn("log", add(C(1), fn("exp", sub(a[1], a[0])))), sub(a[1], a[0])))

# ---------------------------------------------------------------------------------------------
# Lambert W
# ---------------------------------------------------------------------------------------------
for _k in ("W0", "Wm1"):
    T[_k] = dict(ev=_free1(_k, 0.2, 1.5, dom=lambda a: a[0] != 0),
                 d=lambda a, k=_k: [div(P(k, a[0]), mul(a[0], add(C(1), P(k, a[0]))))])
T["gsl_sf_lambert_W0"] = _canon(lambda a: P("W0", a[0]))
T["gsl_sf_lambert_Wm1"] = _canon(lambda a: P("Wm1", a[0]))

# ---------------------------------------------------------------------------------------------
# elementary GSL functions
# ---------------------------------------------------------------------------------------------
T["gsl_log1p"] = _canon(lambda a: fn("log", add(C(1), a[0])))
T["gsl_expm1"] = _canon(lambda a: sub(fn("exp", a[0]), C(1)))
T["gsl_hypot"] = _canon(lambda a: fn("sqrt", add(mul(a[0], a[0]), mul(a[1], a[1]))))
T["gsl_hypot3"] = _canon(lambda a: fn("sqrt", add(add(mul(a[0], a[0]), mul(a[1], a[1])), mul(a[2], a[2]))))
T["gsl_atanh"] = _canon(lambda a: fn("atanh", a[0]))
T["gsl_asinh"] = _canon(lambda a: fn("asinh", a[0]))
T["gsl_acosh"] = _canon(lambda a: fn("acosh", a[0]))
T["gsl_sf_log"] = _canon(lambda a: fn("log", a[0]))
T["gsl_sf_log_abs"] = _canon(lambda a: fn("log", fn("fabs", a[0])))
T["gsl_sf_log_1plusx"] = _canon(lambda a: fn("log", add(C(1), a[0])))
T["gsl_sf_log_1plusx_mx"] = _canon(lambda a: sub(fn("log", add(C(1), a[0])), a[0]))
T["gsl_sf_exp"] = _canon(lambda a: fn("exp", a[0]))
T["gsl_sf_hydrogenicR_1"] = _canon(lambda a: mul(mul(C(2), mul(a[0], fn("sqrt", a[0]))), fn("exp", neg(mul(a[0], a[1])))))

# ---------------------------------------------------------------------------------------------
# complete / incomplete elliptic integrals (Legendre form, modulus k)
# ---------------------------------------------------------------------------------------------
T["Kc"] = dict(ev=_free1("Kc", 1.6, 2.4, dom=lambda a: abs(a[0]) < 1 and a[0] != 0),
               d=lambda a: [sub(div(P("Ec", a[0]), mul(a[0], sub(C(1), mul(a[0], a[0])))), div(P("Kc", a[0]), a[0]))])
T["Ec"] = dict(ev=_free1("Ec", 1.1, 1.5, dom=lambda a: abs(a[0]) < 1 and a[0] != 0),
               d=lambda a: [div(sub(P("Ec", a[0]), P("Kc", a[0])), a[0])])
T["gsl_sf_ellint_Kcomp"] = _canon(lambda a: P("Kc", a[0]))
T["gsl_sf_ellint_Ecomp"] = _canon(lambda a: P("Ec", a[0]))


def _delta(phi, k):
    return fn("sqrt", sub(C(1), mul(mul(k, k), mul(fn("sin", phi), fn("sin", phi)))))


T["Fi"] = dict(ev=_free1("Fi", dom=lambda a: abs(a[1]) < 1 and a[1] != 0),
               d=lambda a: [div(C(1), _delta(a[0], a[1])),
                            sub(sub(div(P("Ei2", a[0], a[1]), mul(a[1], sub(C(1), mul(a[1], a[1])))), div(P("Fi", a[0], a[1]), a[1])),
                                div(mul(a[1], mul(fn("sin", a[0]), fn("cos", a[0]))),
                                    mul(sub(C(1), mul(a[1], a[1])), _delta(a[0], a[1]))))])
T["Ei2"] = dict(ev=_free1("Ei2", dom=lambda a: abs(a[1]) < 1 and a[1] != 0),
                d=lambda a: [_delta(a[0], a[1]), div(sub(P("Ei2", a[0], a[1]), P("Fi", a[0], a[1])), a[1])])
T["gsl_sf_ellint_F"] = _canon(lambda a: P("Fi", a[0], a[1]))
T["gsl_sf_ellint_E"] = _canon(lambda a: P("Ei2", a[0], a[1]))


# ---------------------------------------------------------------------------------------------
# orthogonal polynomials and Legendre functions of integer degree: closed forms by recurrence
# ---------------------------------------------------------------------------------------------
def _legP(l, x):
    if l < 0:
        return domerr("degree < 0")
    p0, p1 = C(1), x
    if l == 0:
        return p0
    for k in range(1, l):
        p0, p1 = p1, div(sub(mul(mul(C(2 * k + 1), x), p1), mul(C(k), p0)), C(k + 1))
    return p1


def _legQ(l, x):
    if l < 0:
        return domerr("degree < 0")
    q0 = mul(C(0.5), fn("log", fn("fabs", div(add(C(1), x), sub(C(1), x)))))
    q1 = sub(mul(x, q0), C(1))
    if l == 0:
        return q0
    for k in range(1, l):
        q0, q1 = q1, div(sub(mul(mul(C(2 * k + 1), x), q1), mul(C(k), q0)), C(k + 1))
    return q1


def _lag(n, a, x):
    if n < 0:
        return domerr("degree < 0")
    l0, l1 = C(1), sub(add(C(1), a), x)
    if n == 0:
        return l0
    for k in range(1, n):
        l0, l1 = l1, div(sub(mul(sub(add(C(2 * k + 1), a), x), l1), mul(add(C(k), a), l0)), C(k + 1))
    return l1


def _geg(n, lam, x):
    if n < 0:
        return domerr("degree < 0")
    c0, c1 = C(1), mul(mul(C(2), lam), x)
    if n == 0:
        return c0
    for k in range(2, n + 1):
        c0, c1 = c1, div(sub(mul(mul(mul(C(2), add(C(k - 1), lam)), x), c1), mul(add(C(k - 2), mul(C(2), lam)), c0)), C(k))
    return c1


def _geg_gsl(n, lam, x):
    """GSL's convention: for lambda == 0 the function returns lim C_n^lambda / lambda (= 2 T_n(x) / n), n >= 1"""
    from .gslsym import diff, subst_args
    gen = _geg(n, lam, x)
    if n < 1:
        return gen
    if n == 3:
        # GSL 2.x: gsl_sf_gegenpoly_3(0, x) = x (-2 + 4/3 x^2), which is not the limit 2 T_3(x) / 3
        at0 = mul(x, add(C(-2), mul(C(4.0 / 3.0), mul(x, x))))
    else:
        at0 = subst_args(diff(_geg(n, ("a", 9999), x), 9999, T), {9999: 0.0})
    return ite(cmp_("==", lam, C(0)), at0, gen)


for _o in (1, 2, 3):
    T["gsl_sf_legendre_P%d" % _o] = _canon(lambda a, o=_o: _legP(o, a[0]))
    T["gsl_sf_laguerre_%d" % _o] = _canon(lambda a, o=_o: _lag(o, a[0], a[1]))
    T["gsl_sf_gegenpoly_%d" % _o] = _canon(lambda a, o=_o: _geg_gsl(o, a[0], a[1]))
T["gsl_sf_legendre_Pl"] = _canon(lambda a: _legP(concrete_int(a[0], "degree l"), a[1]))
T["gsl_sf_legendre_Q0"] = _canon(lambda a: _legQ(0, a[0]))
T["gsl_sf_legendre_Q1"] = _canon(lambda a: _legQ(1, a[0]))
T["gsl_sf_legendre_Ql"] = _canon(lambda a: _legQ(concrete_int(a[0], "degree l"), a[1]))
T["gsl_sf_laguerre_n"] = _canon(lambda a: _lag(concrete_int(a[0], "degree n"), a[1], a[2]))
T["gsl_sf_gegenpoly_n"] = _canon(lambda a: _geg_gsl(concrete_int(a[0], "degree n"), a[1], a[2]))

# ---------------------------------------------------------------------------------------------
# hypergeometric functions: derivative = parameter shift
# ---------------------------------------------------------------------------------------------
T["0F1"] = dict(ev=_free1("0F1"), d=lambda a: [None, div(P("0F1", add(a[0], C(1)), a[1]), a[0])])
T["1F1"] = dict(ev=_free1("1F1"),
                d=lambda a: [None, None, mul(div(a[0], a[1]), P("1F1", add(a[0], C(1)), add(a[1], C(1)), a[2]))])
T["U"] = dict(ev=_free1("U"),
              d=lambda a: [None, None, neg(mul(a[0], P("U", add(a[0], C(1)), add(a[1], C(1)), a[2])))])
T["2F1"] = dict(ev=_free1("2F1"),
                d=lambda a: [None, None, None, mul(div(mul(a[0], a[1]), a[2]),
                                                   P("2F1", add(a[0], C(1)), add(a[1], C(1)), add(a[2], C(1)), a[3]))])
T["gsl_sf_hyperg_0F1"] = _canon(lambda a: P("0F1", a[0], a[1]))
T["gsl_sf_hyperg_1F1_int"] = _canon(lambda a: P("1F1", a[0], a[1], a[2]))
T["gsl_sf_hyperg_1F1"] = _canon(lambda a: P("1F1", a[0], a[1], a[2]))
T["gsl_sf_hyperg_U_int"] = _canon(lambda a: P("U", a[0], a[1], a[2]))
T["gsl_sf_hyperg_U"] = _canon(lambda a: P("U", a[0], a[1], a[2]))
T["gsl_sf_hyperg_2F1"] = _canon(lambda a: P("2F1", a[0], a[1], a[2], a[3]))


def canon(e):
    """rewrite GSL primitive applications into canonical transcendentals / closed forms"""
    op = e[0]
    if op in ("c", "a", "nan", "unset", "err", "glob"):
        return e
    if op == "prim":
        args = tuple(canon(x) for x in e[2])
        h = T.get(e[1])
        if h is None:
            raise Unsupported("no table entry for %s" % e[1])
        if "canon" in h:
            return canon_again(h["canon"](args))
        return ("prim", e[1], args) + tuple(e[3:])
    if op == "fn":
        return ("fn", e[1], canon(e[2]))
    if op == "cmp":
        return ("cmp", e[1], canon(e[2]), canon(e[3]))
    return (op,) + tuple(canon(c) if isinstance(c, tuple) else c for c in e[1:])


def canon_again(e):
    # closed forms may themselves mention GSL names; canonical names pass through unchanged
    return canon(e) if _has_gsl(e) else e


def _has_gsl(e):
    if e[0] == "prim":
        return e[1].startswith("gsl_") or any(_has_gsl(x) for x in e[2])
    return any(isinstance(c, tuple) and _has_gsl(c) for c in e[1:])

# ---------------------------------------------------------------------------------------------
# later additions
# ---------------------------------------------------------------------------------------------
T["gsl_sf_pow_int"] = _canon(lambda a: ("pow", a[0], a[1]))
T["gamP"] = dict(ev=_free1("gamP", 0.2, 0.8, dom=lambda a: a[0] > 0 and a[1] > 0 and a[2] > 0),
                 d=lambda a: [div(mul(("pow", a[0], sub(a[1], C(1))), fn("exp", neg(div(a[0], a[2])))),
                                  mul(P("Gamma", a[1]), ("pow", a[2], a[1]))), None, None])
T["gsl_cdf_gamma_P"] = _canon(lambda a: P("gamP", a[0], a[1], a[2]))


def _pc_d(a):
    k, n = a
    k2 = mul(k, k)
    Pi, E, K = P("Pc", k, n), P("Ec", k), P("Kc", k)
    dk = neg(div(mul(k, add(E, mul(sub(k2, C(1)), Pi))), mul(sub(k2, C(1)), add(k2, n))))
    dn = div(add(sub(mul(n, E), mul(add(k2, n), K)), mul(sub(k2, mul(n, n)), Pi)),
             mul(mul(mul(C(2), n), add(n, C(1))), add(k2, n)))
    return [dk, dn]


# complete elliptic integral of the third kind in GSL's sign convention: integrand 1 / ((1 + n sin^2) sqrt(1 - k^2 sin^2))
T["Pc"] = dict(ev=_free1("Pc", 0.8, 1.6, dom=lambda a: abs(a[0]) < 1 and a[0] != 0 and a[1] > -1), d=_pc_d)
T["gsl_sf_ellint_Pcomp"] = _canon(lambda a: P("Pc", a[0], a[1]))


# ---------------------------------------------------------------------------------------------
# Maclaurin series of some transcendentals (for the limits at the special point 0, rule C16.S2)
# ---------------------------------------------------------------------------------------------
def _bernoulli(n):
    from fractions import Fraction
    B = [Fraction(1)]
    for m in range(1, n + 1):
        s = Fraction(0)
        for k in range(m):
            s += math.comb(m + 1, k) * B[k]
        B.append(-s / (m + 1))
    return B


def _series_at0(coefs):
    """series function for a one-argument transcendental with Maclaurin coefficients coefs(k)"""
    def f(args):
        from . import gslseries as GS
        c0, u = args[0].split()
        if c0 != 0:
            raise GS.SeriesFail("series only at 0")
        return GS._compose([coefs(k) for k in range(GS.N + 2)], u)
    return f


def _debye_coef(n):
    from fractions import Fraction
    B = _bernoulli(40)

    def c(k):
        if k == 0:
            return Fraction(1)
        if k == 1:
            return Fraction(-n, 2 * (n + 1))
        if k % 2:
            return Fraction(0)
        return n * B[k] / ((k + n) * math.factorial(k))
    return c


for _o in (1, 2, 3, 4, 5, 6):
    T["debye%d" % _o]["series"] = _series_at0(_debye_coef(_o))


def _kc_coef(k):
    from fractions import Fraction
    if k % 2:
        return Fraction(0)
    m = k // 2
    return Fraction(math.pi / 2) * Fraction(math.factorial(2 * m), 2 ** (2 * m) * math.factorial(m) ** 2) ** 2


def _ec_coef(k):
    from fractions import Fraction
    if k % 2:
        return Fraction(0)
    m = k // 2
    return -_kc_coef(k) / (2 * m - 1)


T["Kc"]["series"] = _series_at0(_kc_coef)
T["Ec"]["series"] = _series_at0(_ec_coef)


def _w0_coef(k):
    from fractions import Fraction
    if k == 0:
        return Fraction(0)
    return Fraction((-k) ** (k - 1), math.factorial(k))


T["W0"]["series"] = _series_at0(_w0_coef)


def _ell_inc_series(half):
    """F(phi, k) (half = -1/2) or E(phi, k) (half = +1/2) as a series in k at k = 0 for constant phi:
    sum_m binom(half, m) (-1)^m k^(2m) I_m(phi),  I_m = int_0^phi sin^(2m),  2m I_m = (2m - 1) I_(m-1) - sin^(2m-1) cos"""
    def f(args):
        from fractions import Fraction
        from . import gslseries as GS
        p0, pu = args[0].split()
        k0, ku = args[1].split()
        if not pu.is_zero() or k0 != 0:
            raise GS.SeriesFail("series only in k at 0 for constant phi")
        phi = float(p0)
        sn, cs = Fraction(math.sin(phi)), Fraction(math.cos(phi))
        I = [Fraction(phi)]
        for m in range(1, GS.N // 2 + 2):
            I.append((Fraction(2 * m - 1) * I[m - 1] - sn ** (2 * m - 1) * cs) / (2 * m))
        b = GS._binom(Fraction(half).limit_denominator(4))
        coefs = []
        for k in range(GS.N + 2):
            coefs.append(Fraction(0) if k % 2 else b[k // 2] * (-1) ** (k // 2) * I[k // 2])
        return GS._compose(coefs, ku)
    return f


T["Fi"]["series"] = _ell_inc_series(-0.5)
T["Ei2"]["series"] = _ell_inc_series(0.5)
