"""Small intra-procedural flow helpers shared by rules."""
from .cfg import kids, strip, walk, TRANSPARENT

CALL_KINDS = ("CallExpr", "CXXMemberCallExpr", "CXXOperatorCallExpr",
              "CXXConstructExpr", "CXXTemporaryObjectExpr")


def refs_to(func, decl_id):
    return [n for n in func.walk()
            if n["k"] in ("DeclRefExpr", "MemberExpr") and n.get("declId") == decl_id]


def is_write(func, ref):
    """Is this reference the target of a store / passed where it can be
    modified (++, --, =, op=, address taken, bound to a non-const reference)?"""
    cur = ref
    for a in func.ancestors(ref):
        k = a["k"]
        if k in TRANSPARENT:
            if k == "ImplicitCastExpr" and a.get("ck") == "LValueToRValue":
                return False
            cur = a
            continue
        if k in ("BinaryOperator", "CompoundAssignOperator"):
            op = a.get("op", "")
            if op == "=" or (op.endswith("=") and op not in ("==", "!=", "<=", ">=")):
                return kids(a)[0] is cur
            return False
        if k == "UnaryOperator":
            return a.get("op") in ("++", "--", "&")
        if k in CALL_KINDS:
            # passed as lvalue (no LValueToRValue on the way): may be modified
            # unless the parameter type is a const reference / value
            return "maybe"
        return False
    return False


def bare_ref(n, decl_id):
    """n (an argument expression) is nothing but a reference to decl_id."""
    s = strip(n)
    return s is not None and s["k"] in ("DeclRefExpr", "MemberExpr") and s.get("declId") == decl_id


def transitive_overriders(funcs, base_qn):
    """Functions (with bodies) that override base_qn directly or transitively,
    plus definitions of base_qn itself."""
    names = {base_qn}
    changed = True
    while changed:
        changed = False
        for f in funcs:
            if f.qn in names:
                continue
            if any(o in names for o in f.d.get("overrides", [])):
                names.add(f.qn)
                changed = True
    return [f for f in funcs if f.qn in names]
