"""Symbolic range evaluation of integer expressions of one function.

Values are linear expressions (linrel.Lin) over *symbols*: named model
quantities (header fields, given by the rule), one fresh symbol per raw read,
per loop counter and per unresolved parameter.  Branch conditions that hold on
every path to a program point (must-facts of the CFG, after cutting calls that
never return) are translated into constraints on those symbols at the place
where the condition was evaluated, so later modifications of a variable do not
invalidate them.  Small callees (bounded reads, `num_items()` accessors) are
summarised by evaluating their single return value the same way.
"""
from .linrel import Lin, GE, LE, GT, LT, entails, infeasible
from .cfg import kids, strip, walk, cv, render, short_loc, call_args, TRANSPARENT
from .facts import AnalysisBroken

INT_MAX = (1 << 31) - 1


class SymRange:
    def __init__(self, F, member_symbol, is_noreturn, raw_read=None, opaque_nonneg=None):
        """member_symbol(node) -> symbol name for a MemberExpr denoting a model
        quantity (or None); is_noreturn(call node) -> bool;
        raw_read(call node) -> (lo, hi) Lin bounds or None for reads that produce
        a fresh file-provided value."""
        self.F = F
        self.member_symbol = member_symbol
        self.is_noreturn = is_noreturn
        self.raw_read = raw_read or (lambda n: None)
        self.fresh = 0
        self.cons = []              # global constraints on symbols (e.g. fields >= 0)
        self.summaries = {}
        self._cut = set()

    def new(self, hint="t"):
        self.fresh += 1
        return Lin.var("%s%d" % (hint, self.fresh))

    def prepare(self, f):
        if f.id not in self._cut and f.cfg is not None:
            f.cfg.cut_noreturn(lambda n: n["k"] in ("CXXMemberCallExpr", "CallExpr") and self.is_noreturn(n))
            self._cut.add(f.id)

    # ---------------------------------------------------------------------
    def value(self, f, e, env, cons, depth=0):
        """Lin value of integer expression e evaluated in function f with
        parameter environment env (declId -> Lin); appends constraints."""
        if e is None or depth > 14:
            return None
        c = cv(e) if ("cv" in e and e["k"] != "DeclRefExpr") else None
        if c is not None:
            return Lin.const(c)
        k = e["k"]
        ks = kids(e)
        if k in TRANSPARENT or k in ("CStyleCastExpr", "CXXStaticCastExpr", "CXXFunctionalCastExpr"):
            if k in ("ImplicitCastExpr", "CStyleCastExpr", "CXXStaticCastExpr", "CXXFunctionalCastExpr") \
                    and e.get("ck") not in (None, "LValueToRValue", "NoOp", "IntegralCast",
                                             "UncheckedDerivedToBase", "DerivedToBase"):
                return None
            v = self.value(f, ks[0], env, cons, depth + 1) if len(ks) == 1 else None
            if v is not None and e.get("ck") == "IntegralCast" and "unsigned" in e.get("ct", ""):
                # int -> unsigned keeps the value only for non-negative values
                if not entails(self.cons + cons, GE(v, Lin.const(0))):
                    return None
            return v
        if k == "MemberExpr":
            s = self.member_symbol(e)
            if s is not None:
                return Lin.var(s)
            return None
        if k == "DeclRefExpr":
            d = e.get("declId")
            if d in env:
                return env[d]
            if "cv" in e:
                return Lin.const(int(e["cv"]))
            return self.local_value(f, e, env, cons, depth)
        if k == "BinaryOperator" and e.get("op") in ("+", "-"):
            a = self.value(f, ks[0], env, cons, depth + 1)
            b = self.value(f, ks[1], env, cons, depth + 1)
            if a is None or b is None:
                return None
            return a + b if e["op"] == "+" else a - b
        if k == "BinaryOperator" and e.get("op") == "*":
            a = self.value(f, ks[0], env, cons, depth + 1)
            b = self.value(f, ks[1], env, cons, depth + 1)
            if a is not None and b is not None:
                if a.is_const():
                    return b.scale(a.k)
                if b.is_const():
                    return a.scale(b.k)
            return None
        if k in ("CXXMemberCallExpr", "CallExpr"):
            rr = self.raw_read(e)
            if rr is not None:
                x = self.new("r")
                lo, hi = rr
                if lo is not None:
                    cons.append(GE(x, lo))
                if hi is not None:
                    cons.append(LE(x, hi))
                return x
            g = self.F.by_id.get(e.get("calleeId"))
            if g is None or g.cfg is None:
                return None
            args = call_args(e)
            avals = [self.value(f, a, env, cons, depth + 1) for a in args]
            return self.summary_value(g, avals, cons, depth)
        return None

    def summary_value(self, g, avals, cons, depth):
        """Return value of callee g for argument values avals."""
        self.prepare(g)
        rets = [r for r in g.find(lambda n: n["k"] == "ReturnStmt") if kids(r)]
        if len(rets) != 1:
            return None
        env = {}
        for p, a in zip(g.params, avals):
            if a is None:
                a = self.new("p")
            env[p["declId"]] = a
        c2 = []
        v = self.value(g, kids(rets[0])[0], env, c2, depth + 1)
        if v is None:
            return None
        c2 += self.fact_constraints(g, rets[0], env, depth + 1)
        cons.extend(c2)
        return v

    def local_value(self, f, ref, env, cons, depth):
        """Value of a local variable at the point of reference `ref`."""
        d = ref.get("declId")
        key = ("local", f.id, d, tuple(sorted((k_, repr(v_)) for k_, v_ in env.items())))
        vd = [v for v in f.walk() if v["k"] == "VarDecl" and v.get("declId") == d]
        if not vd:
            return None
        vd = vd[0]
        # loop counter?
        lp = f.enclosing(vd, ("ForStmt",))
        if lp is not None:
            lk = lp.get("c", [])
            # ForStmt children: init, condvar, cond, inc, body
            init = lk[0] if lk else None
            if init is not None and any(x is vd for x in walk(init)):
                cond, inc, body = lk[2], lk[3], lk[4]
                in_body = body is not None and any(x is ref for x in walk(body))
                in_cond = cond is not None and any(x is ref for x in walk(cond))
                writes = [w for w in walk(body) if self._writes(w, d)] if body else []
                incs = strip(inc) if inc else None
                if (in_body or in_cond) and not writes and incs is not None and incs["k"] == "UnaryOperator" \
                        and incs.get("op") == "++" and kids(vd):
                    i0 = self.value(f, kids(vd)[0], env, cons, depth + 1)
                    memo = self.__dict__.setdefault("_counter", {})
                    if key not in memo:
                        x = self.new("i")
                        memo[key] = x
                        if i0 is not None:
                            self.cons.append(GE(x, i0))
                    x = memo[key]
                    if in_body and cond is not None:
                        cons.extend(self.cond_constraints(f, cond, True, env, depth + 1, at=ref))
                    return x
        if not kids(vd):
            return None
        memo = self.__dict__.setdefault("_defsym", {})
        if key not in memo:
            c0 = []
            v0 = self.value(f, kids(vd)[0], env, c0, depth + 1)
            memo[key] = (v0, c0)
        v0, c0 = memo[key]
        if v0 is None:
            return None
        cons.extend(c0)
        # modifications of the variable that can execute between its definition
        # and this reference (paths that pass through the definition again start over)
        if f.cfg is None:
            return None
        ref_el = self._element_of(f, ref)
        def_el = self._element_of(f, vd)
        prior = []
        for w in f.walk():
            if not self._writes(w, d):
                continue
            pw = f.cfg.position(w)
            if pw is None or ref_el is None:
                return None
            if f.cfg.path_avoiding(pw, [ref_el], [def_el] if def_el is not None else []) is None:
                continue
            if not f.cfg.dominates(w, ref):
                return None          # conditional modification: value unknown
            prior.append(w)
        prior.sort(key=lambda w: (f.cfg.position(w)[0] != f.cfg.position(ref)[0], w["i"]))
        # order by dominance: w1 before w2 iff w1 dominates w2
        prior.sort(key=lambda w: sum(1 for o in prior if f.cfg.dominates(o, w)))
        cur = v0
        for w in prior:
            k = w["k"]
            if k == "UnaryOperator":
                cur = cur + (1 if w["op"] == "++" else -1)
            elif k == "CompoundAssignOperator" and w.get("op") in ("-=", "+="):
                b = self.value(f, kids(w)[1], dict(env, **{d: cur}), cons, depth + 1)
                if b is None:
                    return None
                cur = cur - b if w["op"] == "-=" else cur + b
            elif k == "BinaryOperator":
                b = self.value(f, kids(w)[1], dict(env, **{d: cur}), cons, depth + 1)
                if b is None:
                    return None
                cur = b
            else:
                return None
        return cur

    @staticmethod
    def _element_of(f, n):
        """id of the CFG element containing node n"""
        i = n["i"]
        while i not in f.cfg.pos:
            if i not in f.parent:
                return None
            i = f.parent[i]["i"]
        return i

    @staticmethod
    def _writes(w, d):
        if w["k"] == "UnaryOperator" and w.get("op") in ("++", "--"):
            t = strip(kids(w)[0])
            return t is not None and t.get("declId") == d
        if w["k"] in ("BinaryOperator", "CompoundAssignOperator") and (
                w.get("op") == "=" or w["k"] == "CompoundAssignOperator"):
            t = strip(kids(w)[0])
            return t is not None and t["k"] == "DeclRefExpr" and t.get("declId") == d
        return False

    # ---------------------------------------------------------------------
    def cond_constraints(self, f, c, pol, env, depth=0, at=None):
        """Constraints implied by condition c having truth value pol, operands
        evaluated at the condition."""
        c = strip(c)
        if c is None:
            return []
        k = c["k"]
        if k == "UnaryOperator" and c.get("op") == "!":
            return self.cond_constraints(f, kids(c)[0], not pol, env, depth)
        if k == "BinaryOperator":
            op = c["op"]
            a, b = kids(c)
            if op == "&&":
                if pol:
                    return self.cond_constraints(f, a, True, env, depth) + \
                        self.cond_constraints(f, b, True, env, depth)
                return []
            if op == "||":
                if not pol:
                    return self.cond_constraints(f, a, False, env, depth) + \
                        self.cond_constraints(f, b, False, env, depth)
                return []
            if op in ("<", "<=", ">", ">=", "==", "!="):
                cs = []
                va = self.value(f, a, env, cs, depth + 1)
                vb = self.value(f, b, env, cs, depth + 1)
                if va is None or vb is None:
                    return []
                neg = {"<": ">=", "<=": ">", ">": "<=", ">=": "<", "==": "!=", "!=": "=="}
                o = op if pol else neg[op]
                m = {"<": LT, "<=": LE, ">": GT, ">=": GE}
                if o in m:
                    return cs + [m[o](va, vb)]
                if o == "==":
                    return cs + [GE(va, vb), LE(va, vb)]
                # != : usable when one side is a known bound of the other
                if entails(self.cons + cs, GE(va, vb)):
                    return cs + [GT(va, vb)]
                if entails(self.cons + cs, LE(va, vb)):
                    return cs + [LT(va, vb)]
                return cs
        return []

    def fact_constraints(self, f, node, env, depth=0):
        self.prepare(f)
        out = []
        for (cid, pol) in f.cfg.facts_at(node):
            if isinstance(pol, tuple):
                continue
            out += self.cond_constraints(f, f.nodes[cid], pol, env, depth)
        return out

    def arg_range(self, f, call, arg, env=None):
        """(value Lin or None, constraints) of an argument at a call site."""
        self.prepare(f)
        env = env or {}
        cons = []
        v = self.value(f, arg, env, cons)
        cons += self.fact_constraints(f, call, env)
        return v, cons
