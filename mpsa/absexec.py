"""Abstract interpreter for loop-free integer functions in the linear-relational
domain of linrel.py with trace partitioning (one polyhedron per path/case).

Semantics modelled: C++ integer promotions/conversions as they appear in the
type-checked AST (every implicit conversion is an explicit node), modular
arithmetic of unsigned types (case split on the wrap count), undefined
behaviour of signed overflow and division by zero (reported), short-circuit
evaluation, inlining of callees whose bodies are available.

Non-linear terms: one product atom per ordered pair of base variables, related
to its factors by McCormick inequalities from the variables' bounds in the
current case; a comparison  X cmp floor(N / D)  with D >= 1 is rewritten to a
comparison of X*D (exact for integers, see DESIGN C17.A1).
"""
from .linrel import Lin, GE, LE, GT, LT, ge0, negate, infeasible, entails
from .cfg import kids, strip, render, short_loc, cv
from .facts import AnalysisBroken

INT_TYPES = {
    "bool": (False, 1), "char": (True, 8), "signed char": (True, 8), "unsigned char": (False, 8),
    "short": (True, 16), "unsigned short": (False, 16), "int": (True, 32),
    "unsigned int": (False, 32), "long": (True, 64), "unsigned long": (False, 64),
    "long long": (True, 64), "unsigned long long": (False, 64),
}


def int_type(ct):
    if ct is None:
        return None
    t = ct.replace("const ", "").replace("volatile ", "").strip()
    if t.endswith("&"):
        t = t[:-1].strip()
    return INT_TYPES.get(t)


def type_range(ty):
    s, b = ty
    if b == 1:
        return 0, 1
    return (-(1 << (b - 1)), (1 << (b - 1)) - 1) if s else (0, (1 << b) - 1)


class State:
    __slots__ = ("cons", "env", "events", "bounds")

    def __init__(self, cons=(), env=None, events=(), bounds=None):
        self.cons = list(cons)
        self.env = dict(env or {})
        self.events = list(events)
        self.bounds = dict(bounds or {})    # base var -> (lo, hi) concrete

    def copy(self):
        return State(self.cons, self.env, self.events, self.bounds)

    def add(self, *cs):
        s = self.copy()
        s.cons.extend(cs)
        return s

    def feasible(self):
        return not infeasible(self.cons)


class DivVal:
    """floor(num / den) with a non-constant denominator (kept symbolic)."""
    def __init__(self, num, den, ty):
        self.num, self.den, self.ty = num, den, ty


class Outcome:
    def __init__(self, kind, st, value=None, node=None, what=""):
        self.kind, self.st, self.value, self.node, self.what = kind, st, value, node, what


class AbsExec:
    def __init__(self, facts, max_depth=6):
        self.F = facts
        self.by_id = {}
        for f in facts.funcs:
            if not f.is_dependent():
                self.by_id.setdefault(f.id, f)
        self.max_depth = max_depth
        self.findings = []       # (kind, state, node, text)
        self.prod = {}           # (u, v) -> atom name
        self.fresh = 0

    # ---- products ---------------------------------------------------------
    def product(self, st, x, y):
        """x*y for single-variable factors; returns (state, Lin)."""
        if x.is_const():
            return st, y.scale(x.k)
        if y.is_const():
            return st, x.scale(y.k)
        sx, sy = x.single(), y.single()
        if sx is None or sy is None or abs(sx[1]) != 1 or abs(sy[1]) != 1:
            raise AnalysisBroken("non-linear term outside the supported fragment: (%r)*(%r)" % (x, y))
        u, v = sx[0], sy[0]
        sign = sx[1] * sy[1]
        if (u, v) in self.prod:
            p = self.prod[(u, v)]
        elif (v, u) in self.prod:
            p = self.prod[(v, u)]
        else:
            raise AnalysisBroken("product of %s and %s used without a declared atom" % (u, v))
        return st, Lin.var(p).scale(sign)

    @staticmethod
    def mccormick(p, u, v, bu, bv):
        """Linear consequences of p = u*v for u in bu, v in bv (concrete bounds)."""
        (lu, hu), (lv, hv) = bu, bv
        P, U, V = Lin.var(p), Lin.var(u), Lin.var(v)
        out = [
            GE(P, U.scale(lv) + V.scale(lu) - lu * lv),     # (u-lu)(v-lv) >= 0
            GE(P, U.scale(hv) + V.scale(hu) - hu * hv),     # (hu-u)(hv-v) >= 0
            LE(P, U.scale(lv) + V.scale(hu) - hu * lv),     # (hu-u)(v-lv) >= 0
            LE(P, U.scale(hv) + V.scale(lu) - lu * hv),     # (u-lu)(hv-v) >= 0
        ]
        return out

    # ---- conversions ----------------------------------------------------------
    def convert(self, st, val, to_ty, node, what="conversion"):
        """Value after conversion to integer type to_ty: list of (state, Lin)."""
        lo, hi = type_range(to_ty)
        if to_ty[1] == 1:
            raise AnalysisBroken("conversion to bool in integer context at %s" % short_loc(node.get("l")))
        if entails(st.cons, GE(val, Lin.const(lo))) and entails(st.cons, LE(val, Lin.const(hi))):
            return [(st, val)]
        out = []
        mod = 1 << to_ty[1]
        for k in (0, 1, -1):
            s2 = st.add(GE(val + k * mod, Lin.const(lo)), LE(val + k * mod, Lin.const(hi)))
            if not s2.feasible():
                continue
            if k != 0:
                s2.events.append(("wrap" if not to_ty[0] else "narrow", short_loc(node.get("l")),
                                  "%s of %r to %s-bit %s wraps by %+d*2^%d" % (
                                      what, val, to_ty[1], "signed" if to_ty[0] else "unsigned", k, to_ty[1])))
            out.append((s2, val + k * mod))
        # any remaining part of the state (|k| >= 2) is outside the fragment
        # beyond one wrap: the result is some value of the target type (fresh
        # variable, sound over-approximation of v mod 2^N)
        for rest in (st.add(LT(val + mod, Lin.const(lo))), st.add(GT(val - mod, Lin.const(hi)))):
            if rest.feasible():
                self.fresh += 1
                w = Lin.var("w%d" % self.fresh)
                rest = rest.add(GE(w, Lin.const(lo)), LE(w, Lin.const(hi)))
                rest.events.append(("wrap" if not to_ty[0] else "narrow", short_loc(node.get("l")),
                                    "%s of %r to %s-bit %s wraps (multiple of 2^%d)" % (
                                        what, val, to_ty[1], "signed" if to_ty[0] else "unsigned", to_ty[1])))
                out.append((rest, w))
        return out

    def arith(self, st, val, ty, node, what):
        """Result of an arithmetic operation computed in type ty."""
        lo, hi = type_range(ty)
        if ty[0]:
            inr = [GE(val, Lin.const(lo)), LE(val, Lin.const(hi))]
            if entails(st.cons, inr[0]) and entails(st.cons, inr[1]):
                return [(st, val)]
            for c, side in ((LT(val, Lin.const(lo)), "below"), (GT(val, Lin.const(hi)), "above")):
                bad = st.add(c)
                if bad.feasible():
                    self.findings.append(("signed-overflow", bad, node,
                                          "%s `%s` overflows its type (%s-bit signed, %s range): undefined behaviour"
                                          % (what, render(node), ty[1], side)))
            ok = st.add(*inr)
            return [(ok, val)] if ok.feasible() else []
        return self.convert(st, val, ty, node, what)

    # ---- expressions --------------------------------------------------------------
    def eval_int(self, n, st, depth=0):
        """list of (state, Lin | DivVal)"""
        k = n["k"]
        c = cv(n) if "cv" in n else None
        if c is not None and k not in ("DeclRefExpr",):
            return [(st, Lin.const(c))]
        ks = kids(n)
        if k in ("ParenExpr", "ExprWithCleanups", "MaterializeTemporaryExpr", "ConstantExpr",
                 "CXXBindTemporaryExpr", "SubstNonTypeTemplateParmExpr"):
            return self.eval_int(ks[0], st, depth)
        if k == "DeclRefExpr":
            d = n.get("declId")
            if d in st.env:
                return [(st, st.env[d])]
            if "cv" in n:
                return [(st, Lin.const(int(n["cv"])))]
            raise AnalysisBroken("unbound variable %s at %s" % (n.get("name"), short_loc(n.get("l"))))
        if k == "MemberExpr":
            base = strip(ks[0]) if ks else None
            if base is not None and base["k"] == "DeclRefExpr" and base.get("declId") in st.env:
                return [(st, st.env[base["declId"]])]        # SafeInt object == its value_
            if base is not None and base["k"] == "CXXThisExpr" and ("this." + n["name"]) in st.env:
                return [(st, st.env["this." + n["name"]])]
            raise AnalysisBroken("member access outside the fragment at %s: %s" % (short_loc(n.get("l")), render(n)))
        if k in ("ImplicitCastExpr", "CStyleCastExpr", "CXXStaticCastExpr", "CXXFunctionalCastExpr"):
            ck = n.get("ck")
            if ck in ("LValueToRValue", "NoOp", "ConstructorConversion", "UserDefinedConversion"):
                return self.eval_int(ks[0], st, depth)
            if ck == "IntegralCast":
                to = int_type(n.get("ct"))
                if to is None:
                    raise AnalysisBroken("cast to non-integer %s" % n.get("ct"))
                out = []
                for s2, v in self.eval_int(ks[0], st, depth):
                    if isinstance(v, DivVal):
                        raise AnalysisBroken("conversion of a symbolic quotient")
                    out.extend(self.convert(s2, v, to, n))
                return out
            if ck == "IntegralToBoolean":
                out = []
                for s2, t in self.eval_cond(n, st, depth):
                    out.append((s2, Lin.const(1 if t else 0)))
                return out
            raise AnalysisBroken("cast kind %s at %s" % (ck, short_loc(n.get("l"))))
        if k == "BinaryOperator":
            op = n["op"]
            ty = int_type(n.get("ct"))
            if op in ("+", "-", "*", "/") and ty is not None:
                out = []
                for s1, a in self.eval_int(ks[0], st, depth):
                    for s2, b in self.eval_int(ks[1], s1, depth):
                        if isinstance(a, DivVal) or isinstance(b, DivVal):
                            raise AnalysisBroken("arithmetic on a symbolic quotient at %s" % short_loc(n.get("l")))
                        if op == "+":
                            out.extend(self.arith(s2, a + b, ty, n, "addition"))
                        elif op == "-":
                            out.extend(self.arith(s2, a - b, ty, n, "subtraction"))
                        elif op == "*":
                            s3, p = self.product(s2, a, b)
                            out.extend(self.arith(s3, p, ty, n, "multiplication"))
                        else:
                            zero = s2.add(GE(b, Lin.const(0)), LE(b, Lin.const(0)))
                            if zero.feasible():
                                self.findings.append(("div-by-zero", zero, n,
                                                      "division `%s` by zero is possible" % render(n)))
                            if b.is_const() and b.k != 0 and a.is_const():
                                q = abs(a.k) // abs(b.k)
                                out.append((s2, Lin.const(q if (a.k < 0) == (b.k < 0) else -q)))
                            else:
                                for cc in (GT(b, Lin.const(0)), LT(b, Lin.const(0))):
                                    s3 = s2.add(cc)
                                    if s3.feasible():
                                        out.append((s3, DivVal(a, b, ty)))
                return out
            if op in ("<", "<=", ">", ">=", "==", "!=", "&&", "||"):
                return [(s2, Lin.const(1 if t else 0)) for s2, t in self.eval_cond(n, st, depth)]
            raise AnalysisBroken("operator %s at %s" % (op, short_loc(n.get("l"))))
        if k == "UnaryOperator":
            op = n.get("op")
            if op == "-":
                ty = int_type(n.get("ct"))
                out = []
                for s2, v in self.eval_int(ks[0], st, depth):
                    out.extend(self.arith(s2, -v, ty, n, "negation"))
                return out
            if op == "+":
                return self.eval_int(ks[0], st, depth)
            if op == "!":
                return [(s2, Lin.const(1 if t else 0)) for s2, t in self.eval_cond(n, st, depth)]
            raise AnalysisBroken("unary %s at %s" % (op, short_loc(n.get("l"))))
        if k == "ConditionalOperator":
            out = []
            for s2, t in self.eval_cond(ks[0], st, depth):
                out.extend(self.eval_int(ks[1] if t else ks[2], s2, depth))
            return out
        if k in ("CallExpr", "CXXOperatorCallExpr", "CXXMemberCallExpr"):
            outs = self.call(n, st, depth)
            res = []
            for o in outs:
                if o.kind == "return":
                    res.append((o.st, o.value))
                else:
                    self.pending.append(o)
            return res
        if k in ("CXXConstructExpr", "CXXTemporaryObjectExpr"):
            # SafeInt<T>(T) / copy: the object is its value
            callee = n.get("callee", "")
            if len(ks) == 1 and (callee.endswith("SafeInt::SafeInt")):
                f = self.by_id.get(n.get("calleeId"))
                if f is not None and f.d.get("inits"):
                    outs = self.run_function(f, [ks[0]], st, depth + 1, ctor=True)
                    res = []
                    for o in outs:
                        if o.kind == "return":
                            res.append((o.st, o.value))
                        else:
                            self.pending.append(o)
                    return res
                return self.eval_int(ks[0], st, depth)      # implicit copy/move
            raise AnalysisBroken("constructor %s at %s" % (callee, short_loc(n.get("l"))))
        raise AnalysisBroken("expression kind %s at %s: %s" % (k, short_loc(n.get("l")), render(n)))

    def eval_cond(self, n, st, depth=0):
        """list of (state, bool)"""
        k = n["k"]
        ks = kids(n)
        if k in ("ParenExpr", "ExprWithCleanups", "MaterializeTemporaryExpr", "ConstantExpr"):
            return self.eval_cond(ks[0], st, depth)
        if k == "CXXBoolLiteralExpr":
            return [(st, n.get("v") == "1")]
        if k == "ImplicitCastExpr":
            if n.get("ck") in ("LValueToRValue", "NoOp"):
                return self.eval_cond(ks[0], st, depth)
            if n.get("ck") == "IntegralToBoolean":
                out = []
                for s2, v in self.eval_int(ks[0], st, depth):
                    out.extend(self.split(s2, v, "!=", Lin.const(0)))
                return out
            if n.get("ck") == "IntegralCast":
                return self.eval_cond(ks[0], st, depth)
        if k == "UnaryOperator" and n.get("op") == "!":
            return [(s2, not t) for s2, t in self.eval_cond(ks[0], st, depth)]
        if k == "BinaryOperator":
            op = n["op"]
            if op == "&&":
                out = []
                for s1, t in self.eval_cond(ks[0], st, depth):
                    if not t:
                        out.append((s1, False))
                    else:
                        out.extend(self.eval_cond(ks[1], s1, depth))
                return out
            if op == "||":
                out = []
                for s1, t in self.eval_cond(ks[0], st, depth):
                    if t:
                        out.append((s1, True))
                    else:
                        out.extend(self.eval_cond(ks[1], s1, depth))
                return out
            if op in ("<", "<=", ">", ">=", "==", "!="):
                out = []
                for s1, a in self.eval_int(ks[0], st, depth):
                    for s2, b in self.eval_int(ks[1], s1, depth):
                        out.extend(self.split(s2, a, op, b))
                return out
        if k in ("CallExpr", "CXXMemberCallExpr", "CXXOperatorCallExpr", "DeclRefExpr"):
            out = []
            for s2, v in self.eval_int(n, st, depth):
                out.extend(self.split(s2, v, "!=", Lin.const(0)))
            return out
        raise AnalysisBroken("condition kind %s at %s: %s" % (k, short_loc(n.get("l")), render(n)))

    def split(self, st, a, op, b):
        """cases of `a op b`: list of (state, truth), infeasible cases dropped."""
        if isinstance(b, DivVal) or isinstance(a, DivVal):
            if isinstance(a, DivVal):
                from .absint import FLIP
                a, b, op = b, a, FLIP[op]
            if isinstance(a, DivVal):
                raise AnalysisBroken("comparison of two symbolic quotients")
            # a op floor(N/D): require N >= 0, a >= 0 and D >= 1 (then exact rewriting)
            N, D = b.num, b.den
            if not (entails(st.cons, GE(D, Lin.const(1))) and entails(st.cons, GE(N, Lin.const(0)))
                    and entails(st.cons, GE(a, Lin.const(0)))):
                raise AnalysisBroken("quotient comparison outside the fragment (needs N>=0, D>=1, X>=0)")
            st, p = self.product(st, a, D)          # X*D
            if op == ">":
                tc, fc = [GT(p, N)], [LE(p, N)]
            elif op == "<=":
                tc, fc = [LE(p, N)], [GT(p, N)]
            elif op == ">=":           # X >= floor(N/D)  <=>  (X+1)*D > N
                tc, fc = [GT(p + D, N)], [LE(p + D, N)]
            elif op == "<":
                tc, fc = [LE(p + D, N)], [GT(p + D, N)]
            else:
                raise AnalysisBroken("(in)equality with a symbolic quotient")
            out = []
            for cs, t in ((tc, True), (fc, False)):
                s2 = st.add(*cs)
                if s2.feasible():
                    out.append((s2, t))
            return out
        cases = {
            "<": ([[LT(a, b)]], [[GE(a, b)]]),
            "<=": ([[LE(a, b)]], [[GT(a, b)]]),
            ">": ([[GT(a, b)]], [[LE(a, b)]]),
            ">=": ([[GE(a, b)]], [[LT(a, b)]]),
            "==": ([[GE(a, b), LE(a, b)]], [[LT(a, b)], [GT(a, b)]]),
            "!=": ([[LT(a, b)], [GT(a, b)]], [[GE(a, b), LE(a, b)]]),
        }[op]
        out = []
        for lst, t in ((cases[0], True), (cases[1], False)):
            for cs in lst:
                s2 = st.add(*cs)
                if s2.feasible():
                    out.append((s2, t))
        return out

    # ---- calls and statements ---------------------------------------------------------
    def call(self, n, st, depth):
        f = self.by_id.get(n.get("calleeId"))
        if f is None:
            raise AnalysisBroken("callee %s has no exported body (at %s)" % (
                n.get("callee"), short_loc(n.get("l"))))
        if depth >= self.max_depth:
            raise AnalysisBroken("inlining deeper than %d" % self.max_depth)
        ks = kids(n)
        args = ks[1:]
        return self.run_function(f, args, st, depth + 1)

    def run_function(self, f, arg_nodes, st, depth, ctor=False, arg_values=None):
        """Executes f abstractly.  Returns Outcomes (return/throw)."""
        states = [(st, [])]
        if arg_values is None:
            for a in arg_nodes:
                nxt = []
                for s, vals in states:
                    for s2, v in self.eval_int(a, s, depth):
                        nxt.append((s2, vals + [v]))
                states = nxt
        else:
            states = [(st, list(arg_values))]
        outs = []
        for s, vals in states:
            saved = dict(s.env)
            s = s.copy()
            for p, v in zip(f.params, vals):
                s.env[p["declId"]] = v
            results = [("fall", s)]
            if ctor or f.d.get("ctor"):
                for init in f.d.get("inits", []):
                    nxt = []
                    for kind, s1 in results:
                        for s2, v in self.eval_int(kids(init)[0], s1, depth):
                            s2 = s2.copy()
                            s2.env["this." + init.get("name", "?")] = v
                            nxt.append(("fall", s2))
                    results = nxt
            final = []
            for kind, s1 in results:
                final.extend(self.exec_stmt(f.body, s1, depth, f))
            for o in final:
                if o.kind == "fall":
                    if f.d.get("ctor") or ctor:
                        o = Outcome("return", o.st, o.st.env.get("this.value_"))
                    else:
                        o = Outcome("return", o.st, None)
                # restore the caller's environment (constraints/events are kept)
                o.st.env = dict(saved)
                outs.append(o)
        return outs

    def exec_stmt(self, n, st, depth, f):
        """list of Outcome(kind in fall/return/throw)"""
        if n is None:
            return [Outcome("fall", st)]
        k = n["k"]
        ks = kids(n)
        if k == "CompoundStmt":
            cur = [Outcome("fall", st)]
            for s in ks:
                nxt = []
                for o in cur:
                    if o.kind != "fall":
                        nxt.append(o)
                    else:
                        nxt.extend(self.exec_stmt(s, o.st, depth, f))
                cur = nxt
            return cur
        if k == "DeclStmt":
            cur = [st]
            for v in ks:
                if v["k"] != "VarDecl":
                    continue
                nxt = []
                for s in cur:
                    if kids(v):
                        self.pending = []
                        for s2, val in self.eval_int(kids(v)[0], s, depth):
                            if isinstance(val, DivVal):
                                raise AnalysisBroken("symbolic quotient stored in a variable")
                            s2 = s2.copy()
                            s2.env[v["declId"]] = val
                            nxt.append(s2)
                    else:
                        nxt.append(s)
                cur = nxt
            return [Outcome("fall", s) for s in cur] + self.take_pending()
        if k == "IfStmt":
            self.pending = []
            out = []
            cond, then = ks[0], ks[1]
            els = ks[2] if len(ks) > 2 else None
            for s2, t in self.eval_cond(cond, st, depth):
                if t:
                    out.extend(self.exec_stmt(then, s2, depth, f))
                elif els is not None:
                    out.extend(self.exec_stmt(els, s2, depth, f))
                else:
                    out.append(Outcome("fall", s2))
            return out + self.take_pending()
        if k == "ReturnStmt":
            self.pending = []
            out = []
            if not ks:
                return [Outcome("return", st, None)]
            rt = f.d.get("ret", "")
            if rt == "bool":
                for s2, t in self.eval_cond(ks[0], st, depth):
                    out.append(Outcome("return", s2, Lin.const(1 if t else 0), n))
            else:
                for s2, v in self.eval_int(ks[0], st, depth):
                    out.append(Outcome("return", s2, v, n))
            return out + self.take_pending()
        if k == "CXXThrowExpr" or (k == "ExprWithCleanups" and strip(n)["k"] == "CXXThrowExpr"):
            return [Outcome("throw", st, None, n, render(n))]
        if k in ("BinaryOperator", "CompoundAssignOperator") and n.get("op") in ("=", "+=", "-="):
            self.pending = []
            lhs = strip(ks[0])
            if lhs["k"] != "DeclRefExpr":
                raise AnalysisBroken("assignment target %s" % render(lhs))
            out = []
            if n["op"] == "=":
                for s2, v in self.eval_int(ks[1], st, depth):
                    s2 = s2.copy()
                    s2.env[lhs["declId"]] = v
                    out.append(Outcome("fall", s2))
            else:
                raise AnalysisBroken("compound assignment at %s" % short_loc(n.get("l")))
            return out + self.take_pending()
        if k in ("NullStmt",):
            return [Outcome("fall", st)]
        if k in ("CallExpr", "CXXMemberCallExpr") and self.by_id.get(n.get("calleeId")) is not None:
            # a helper called for its effect (e.g. a range check moved into its own function): its throwing
            # outcomes end the caller, its returns fall through
            self.pending = []
            out = []
            for o in self.call(n, st, depth):
                out.append(Outcome("fall", o.st) if o.kind == "return" else o)
            return out + self.take_pending()
        if k in ("ParenExpr", "CStyleCastExpr", "CXXStaticCastExpr") and n.get("mo") == "assert":
            return [Outcome("fall", st)]
        raise AnalysisBroken("statement kind %s at %s in %s" % (k, short_loc(n.get("l")), f.full))

    pending = []

    def take_pending(self):
        p, self.pending = self.pending, []
        return p


def witness(cons, vars_, bounds, prods=None, extra_vals=()):
    """Integer point satisfying all constraints, searched among boundary-derived
    candidates.  prods: {atom: (u, v)} product atoms evaluated exactly."""
    cand = {}
    consts = set(extra_vals)
    for c in cons:
        consts.add(c.k)
        consts.add(-c.k)
    for v in vars_:
        lo, hi = bounds[v]
        s = {lo, lo + 1, lo + 2, hi, hi - 1, hi - 2, 0, 1, -1, 2, -2, 3, 5, (lo + hi) // 2,
             hi // 2, hi // 2 + 1, lo // 2, lo // 2 - 1}
        for k in consts:
            for d in (-1, 0, 1):
                s.add(k + d)
                s.add(hi - abs(k) + d)
                s.add(lo + abs(k) + d)
        for k in list(consts):
            for kk in (abs(k) - 1, abs(k), abs(k) + 1):
                if 1 < kk:
                    d = 2
                    while d * d <= kk and kk % d and d < 100000:
                        d += 1
                    if d * d <= kk and kk % d == 0:
                        for z in (d, kk // d):
                            s.add(z); s.add(-z)
        cand[v] = sorted(x for x in s if lo <= x <= hi)

    def rec(i, env):
        if i == len(vars_):
            e = dict(env)
            for p, (u, v) in (prods or {}).items():
                e[p] = e[u] * e[v]
            for c in cons:
                # constraints over fresh wrap variables (w*) only bound the
                # over-approximated wrapped value; the path itself is witnessed
                # by the operands
                if any(v not in e and v.startswith("w") for v in c.co):
                    continue
                try:
                    if c.eval(e) < 0:
                        return None
                except KeyError:
                    return None
            return e
        for x in cand[vars_[i]]:
            env[vars_[i]] = x
            r = rec(i + 1, env)
            if r is not None:
                return r
        return None
    return rec(0, {})
