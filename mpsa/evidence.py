"""Result collection, known-finding matching, evidence files, exit codes."""
import json, os, sys, time
from . import units

KNOWN = os.path.join(units.VERIF, "known_findings.json")
EVID = os.path.join(units.VERIF, "evidence")
REPLAY = os.path.join(units.VERIF, "evidence", "violations")


def load_known():
    try:
        with open(KNOWN) as fh:
            return json.load(fh).get("findings", [])
    except OSError:
        return []


class Rule:
    def __init__(self, report, rid, template, text, floor=0, nontrivial=True):
        self.report = report
        self.id = rid
        self.template = template
        self.text = text
        self.floor = floor
        self.nontrivial = nontrivial   # verdicts need a path/flow/range argument
        self.instances = []            # dicts: key, ok, where, detail

    def ok(self, key, where="", detail=""):
        self.instances.append(dict(key=key, ok=True, where=where, detail=detail))

    def fail(self, key, where="", detail=""):
        self.instances.append(dict(key=key, ok=False, where=where, detail=detail))

    def check(self, cond, key, where="", detail="", fail_detail=None):
        if cond:
            self.ok(key, where, detail)
        else:
            self.fail(key, where, fail_detail if fail_detail is not None else detail)
        return cond

    def full_key(self, inst):
        return "%s|%s" % (self.id, inst["key"])


class Report:
    def __init__(self, prop, tier, level, explanation, assumptions=(), trusted=(),
                 design_ref=""):
        self.prop = prop
        self.tier = tier
        self.level = level
        self.explanation = explanation
        self.assumptions = list(assumptions)
        self.trusted = list(trusted)
        self.rules = []
        self.units = []
        self.functions = set()
        self.extra = {}
        self.inconclusive = []      # parts of the analysis that left the supported fragment
        self.t0 = time.time()
        self.repo = units.REPO

    def rule(self, rid, template, text, floor=0, nontrivial=True):
        from . import cfg as _cfg
        _cfg.set_rule(rid)
        r = Rule(self, rid, template, text, floor, nontrivial)
        self.rules.append(r)
        return r

    def note_units(self, us):
        for u in us:
            if u not in self.units:
                self.units.append(u)

    def note_funcs(self, fs):
        for f in fs:
            self.functions.add(f if isinstance(f, str) else f.full)

    # ------------------------------------------------------------------------
    def finish(self, quiet=False):
        from .facts import AnalysisBroken
        known = [k for k in load_known() if k.get("property") == self.prop]
        known_keys = {k["key"]: k for k in known if k.get("status") == "known"}
        total = ok = 0
        violations = []
        known_hits = []
        samples = []
        counts = {}
        distinct_nt = set()
        for r in self.rules:
            n = len(r.instances)
            counts[r.id] = n
            if n < r.floor and all(i["ok"] for i in r.instances):   # a vacuous pass, not a reported failure
                raise AnalysisBroken(
                    "rule %s found %d instances, floor is %d (anchors moved? "
                    "re-read and re-freeze the rule)" % (r.id, n, r.floor))
            for inst in r.instances:
                total += 1
                fk = r.full_key(inst)
                if r.nontrivial:
                    distinct_nt.add(fk)
                if inst["ok"]:
                    ok += 1
                elif fk in known_keys:
                    known_hits.append((r, inst, known_keys[fk]))
                else:
                    violations.append((r, inst))
            for inst in r.instances[:3]:
                samples.append(dict(rule=r.id, key=inst["key"], where=inst["where"],
                                    verdict="holds" if inst["ok"] else "FAILS",
                                    detail=inst["detail"][:300]))
        wall = time.time() - self.t0
        cov = dict(
            explanation=self.explanation,
            rule="; ".join("%s[%s]: %s" % (r.id, r.template, r.text) for r in self.rules)[:6000],
            evaluations=total,
            distinct_nontrivial=len(distinct_nt),
            samples=samples[:40],
            obligations=total,
            discharged=ok,
            checker_cmd="./check %s --tier %s" % (self.prop, self.tier),
            trusted_base=self.trusted,
            exhaustive=True,
            units=self.units,
            functions_analysed=len(self.functions),
            rule_instance_counts=counts,
            floors={r.id: r.floor for r in self.rules},
            known_findings_matched=[r.full_key(i) for r, i, _ in known_hits],
        )
        cov.update(self.extra)
        ev = dict(property_id=self.prop, tier=self.tier,
                  seed=int(os.environ.get("VERIF_SEED", "0") or 0),
                  level=self.level, coverage=cov, assumptions=self.assumptions,
                  wall_s=round(wall, 3), violations=len(violations))
        os.makedirs(EVID, exist_ok=True)
        tmp = os.path.join(EVID, ".%s.json.tmp" % self.prop)
        with open(tmp, "w") as fh:
            json.dump(ev, fh, indent=1)
        os.replace(tmp, os.path.join(EVID, "%s.json" % self.prop))

        if not quiet:
            print("%s [%s] repo=%s: %d units, %d functions, %d obligations, %d hold"
                  % (self.prop, self.tier, self.repo, len(self.units),
                     len(self.functions), total, ok))
            for r in self.rules:
                nf = sum(1 for i in r.instances if not i["ok"])
                print("  %-8s %-9s %3d instances (floor %d)%s  %s" % (
                    r.id, r.template, len(r.instances), r.floor,
                    (", %d failing" % nf) if nf else "", r.text[:90]))
        for r, inst, k in known_hits:
            print("KNOWN-FINDING: property=%s %s at %s: %s" % (
                self.prop, r.full_key(inst), inst["where"], inst["detail"][:300]))
        for msg in self.inconclusive:
            print("  INCONCLUSIVE: %s" % msg)
        if self.inconclusive and not violations:
            raise AnalysisBroken("%d part(s) of the analysis left the supported fragment: %s"
                                 % (len(self.inconclusive), self.inconclusive[0]))
        if violations:
            os.makedirs(REPLAY, exist_ok=True)
            for n, (r, inst) in enumerate(violations):
                path = os.path.join(REPLAY, "%s-%d.json" % (self.prop, n))
                with open(path, "w") as fh:
                    json.dump(dict(property=self.prop, rule=r.id, template=r.template,
                                   rule_text=r.text, key=r.full_key(inst),
                                   where=inst["where"], detail=inst["detail"],
                                   repo=self.repo), fh, indent=1)
                print("  FAIL %s at %s: %s" % (r.full_key(inst), inst["where"], inst["detail"]))
                print("VIOLATION property=%s replay=%s" % (self.prop, path))
            return 1
        return 0
