"""Exact truncated Laurent series (rational coefficients) for one-sided limits of closed-form
expressions at a special point: x = c + s*t, t -> 0+.  Used by rule C16.S2: the constant a binding
stores at a point singled out by a guard (x == 0) must be the two-sided limit of the derivative of
the value's closed form, or the binding must report an error there.
"""
from fractions import Fraction
import math
from .gslsym import Unsupported, DomainError, _cmp

N = 30


class SeriesFail(Exception):
    pass


class S:
    """sum_{k} c[k] t^(v+k), coefficients known for len(c) terms (absolute precision v+len(c))"""
    __slots__ = ("v", "c")

    def __init__(self, v, c):
        c = list(c)
        while c and c[0] == 0:
            c.pop(0)
            v += 1
        self.v, self.c = v, c[:N]

    @staticmethod
    def const(x):
        x = Fraction(x)
        if x == 0:
            return S(0, [Fraction(0)] * 0 + [])._zero()
        return S(0, [x] + [Fraction(0)] * (N - 1))

    def _zero(self):
        self.v, self.c = N, []
        return self

    @staticmethod
    def zero():
        return S(N, [])

    def prec(self):
        return self.v + len(self.c)

    def is_zero(self):
        return not self.c

    def coef(self, p):
        k = p - self.v
        return self.c[k] if 0 <= k < len(self.c) else Fraction(0)

    def __neg__(self):
        return S(self.v, [-x for x in self.c])

    def __add__(self, o):
        if self.is_zero() and self.v >= N:
            return o
        if o.is_zero() and o.v >= N:
            return self
        v = min(self.v, o.v)
        p = min(self.prec(), o.prec())
        return S(v, [self.coef(k) + o.coef(k) for k in range(v, p)])

    def __sub__(self, o):
        return self + (-o)

    def __mul__(self, o):
        if self.is_zero() or o.is_zero():
            return S.zero()
        n = min(len(self.c), len(o.c))
        out = [Fraction(0)] * n
        for i in range(n):
            a = self.c[i]
            if a == 0:
                continue
            for j in range(n - i):
                out[i + j] += a * o.c[j]
        return S(self.v + o.v, out)

    def inv(self):
        if self.is_zero():
            raise SeriesFail("division by a series that vanishes to the working order")
        n = len(self.c)
        a0 = self.c[0]
        out = [Fraction(1) / a0]
        for k in range(1, n):
            s = Fraction(0)
            for j in range(1, k + 1):
                s += self.c[j] * out[k - j]
            out.append(-s / a0)
        return S(-self.v, out)

    def __truediv__(self, o):
        return self * o.inv()

    def sign(self):
        if self.is_zero():
            return 0
        return 1 if self.c[0] > 0 else -1

    def split(self):
        """(constant term, remainder with valuation >= 1); valuation must be >= 0"""
        if self.v < 0:
            raise SeriesFail("argument of an analytic function diverges")
        c0 = self.coef(0)
        rest = S(1, [self.coef(k) for k in range(1, self.prec())]) if self.prec() > 1 else S.zero()
        return c0, rest


def _compose(coefs, u):
    """sum coefs[k] u^k for a series u of valuation >= 1"""
    out = S.zero()
    pw = None
    for k, a in enumerate(coefs):
        if k == 0:
            term = S.const(a)
        else:
            pw = u if pw is None else pw * u
            if pw.is_zero():
                break
            term = pw * S.const(a) if a != 0 else None
        if term is not None and not (term.is_zero() and term.v >= N):
            out = out + term if not (out.is_zero() and out.v >= N) else term
    return out


def _fact(n):
    return Fraction(math.factorial(n))


EXP = [1 / _fact(k) for k in range(N + 2)]
SIN = [(Fraction((-1) ** (k // 2)) / _fact(k)) if k % 2 else Fraction(0) for k in range(N + 2)]
COS = [(Fraction((-1) ** (k // 2)) / _fact(k)) if k % 2 == 0 else Fraction(0) for k in range(N + 2)]
SINH = [(1 / _fact(k)) if k % 2 else Fraction(0) for k in range(N + 2)]
COSH = [(1 / _fact(k)) if k % 2 == 0 else Fraction(0) for k in range(N + 2)]
ATAN = [(Fraction((-1) ** (k // 2), k)) if k % 2 else Fraction(0) for k in range(N + 2)]
LOG1P = [Fraction(0)] + [Fraction((-1) ** (k + 1), k) for k in range(1, N + 2)]


def _binom(p):
    out, c = [], Fraction(1)
    for k in range(N + 2):
        out.append(c)
        c = c * (p - k) / (k + 1)
    return out


def fn(name, s):
    if name == "fabs":
        return s if s.sign() >= 0 else -s
    c0, u = s.split()
    if name in ("exp", "sin", "cos", "sinh", "cosh"):
        if c0 != 0:
            f0 = float(c0)
            if name == "exp":
                return S.const(Fraction(math.exp(f0))) * _compose(EXP, u)
            if name == "sin":
                return S.const(Fraction(math.sin(f0))) * _compose(COS, u) + S.const(Fraction(math.cos(f0))) * _compose(SIN, u)
            if name == "cos":
                return S.const(Fraction(math.cos(f0))) * _compose(COS, u) - S.const(Fraction(math.sin(f0))) * _compose(SIN, u)
            if name == "sinh":
                return S.const(Fraction(math.sinh(f0))) * _compose(COSH, u) + S.const(Fraction(math.cosh(f0))) * _compose(SINH, u)
            return S.const(Fraction(math.cosh(f0))) * _compose(COSH, u) + S.const(Fraction(math.sinh(f0))) * _compose(SINH, u)
        return _compose({"exp": EXP, "sin": SIN, "cos": COS, "sinh": SINH, "cosh": COSH}[name], u)
    if name == "log":
        if c0 <= 0:
            raise SeriesFail("log at a non-positive point")
        return S.const(Fraction(math.log(float(c0)))) + _compose(LOG1P, u * S.const(1 / c0))
    if name == "atan" and c0 == 0:
        return _compose(ATAN, u)
    if name == "sqrt":
        return power(s, Fraction(1, 2))
    if name == "tan":
        return fn("sin", s) / fn("cos", s)
    if name == "tanh":
        return fn("sinh", s) / fn("cosh", s)
    raise SeriesFail("series of %s" % name)


def power(s, p):
    p = Fraction(p).limit_denominator(1000)
    if s.is_zero():
        raise SeriesFail("power of a vanishing series")
    if p.denominator == 1:
        n = int(p)
        if n >= 0:
            out = S.const(1)
            for _ in range(n):
                out = out * s
            return out
        return power(s, -n).inv()
    a = s.c[0]
    if (s.v * p).denominator != 1:
        raise SeriesFail("fractional power of t")
    if a <= 0:
        raise SeriesFail("fractional power of a negative quantity")
    u = S(1, [x / a for x in s.c[1:]]) if len(s.c) > 1 else S.zero()
    lead = S(int(s.v * p), [Fraction(math.pow(float(a), float(p)))] + [Fraction(0)] * (len(s.c) - 1))
    return lead * _compose(_binom(p), u)


def sev(e, var, point, sgn, A):
    """series of expression e with argument `var` = point + sgn*t and the other arguments from A"""
    op = e[0]
    if op == "c":
        if e[1] != e[1] or abs(e[1]) == float("inf"):
            raise SeriesFail("non-finite constant")
        return S.const(Fraction(e[1]))
    if op == "a":
        if e[1] == var:
            return S(0, [Fraction(point), Fraction(sgn)] + [Fraction(0)] * (N - 2))
        return S.const(Fraction(A[e[1]]))
    if op == "neg":
        return -sev(e[1], var, point, sgn, A)
    if op in ("+", "-", "*", "/"):
        a, b = sev(e[1], var, point, sgn, A), sev(e[2], var, point, sgn, A)
        return a + b if op == "+" else a - b if op == "-" else a * b if op == "*" else a / b
    if op == "pow":
        b = e[2]
        if b[0] != "c":
            bs = sev(b, var, point, sgn, A)
            c0, u = bs.split()
            if not u.is_zero():
                raise SeriesFail("variable exponent")
            return power(sev(e[1], var, point, sgn, A), c0)
        return power(sev(e[1], var, point, sgn, A), Fraction(b[1]))
    if op == "fn":
        return fn(e[1], sev(e[2], var, point, sgn, A))
    if op == "ite":
        return sev(e[2] if scond(e[1], var, point, sgn, A) else e[3], var, point, sgn, A)
    if op == "nan":
        raise SeriesFail("NaN branch")
    if op == "prim":
        from .gslprims import T
        h = T.get(e[1])
        if h is not None and h.get("series") is not None:
            return h["series"]([sev(x, var, point, sgn, A) for x in e[2]])
        raise SeriesFail("transcendental %s has no closed form here" % e[1])
    raise SeriesFail("series of node %s" % op)


def scond(c, var, point, sgn, A):
    op = c[0]
    if op == "c":
        return bool(c[1])
    if op == "cmp":
        d = sev(c[2], var, point, sgn, A) - sev(c[3], var, point, sgn, A)
        if d.is_zero() and d.v < N:
            raise SeriesFail("comparison undecided at the working order")
        return _cmp(c[1], d.sign(), 0)
    if op == "and":
        return scond(c[1], var, point, sgn, A) and scond(c[2], var, point, sgn, A)
    if op == "or":
        return scond(c[1], var, point, sgn, A) or scond(c[2], var, point, sgn, A)
    if op == "not":
        return not scond(c[1], var, point, sgn, A)
    raise SeriesFail("condition %s" % op)


def limit(s):
    """('value', x) | ('diverges',) for t -> 0+"""
    if s.is_zero():
        if s.v >= N:
            return ("value", 0.0)
        raise SeriesFail("precision exhausted")
    if s.v < 0:
        return ("diverges",)
    if s.v > 0:
        return ("value", 0.0)
    return ("value", float(s.c[0]))
