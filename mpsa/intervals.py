"""Interval abstract interpretation over the exported CFG (C-style code).

Variables are integer lvalue *access paths* (`n`, `SR.h.namelen`, `sr->h.n`,
`*Lp`): locals, parameters, members of `this` and fields reached through a
local object / pointer parameter.  Pointers into fixed-size arrays are tracked
as (array path, offset interval).  Everything written by a callee through an
address (`&L`, `(char*)&L`, `&SR.h.kind`) or returned by a library read is
TOP of its type unless a callee *summary* (post-state at `return k`) applies.

Analysis: forward, one environment per block entry, join = interval hull,
widening after 3 visits of a block, then two narrowing sweeps.  Branch
refinement on atomic comparisons (the CFG already splits && and ||).
"""
from collections import deque
from .cfg import kids, strip, walk, cv, render, short_loc, call_args, TRANSPARENT
from .absexec import int_type, type_range, INT_TYPES

INF = float("inf")
TOP = (-INF, INF)


def hull(a, b):
    return (min(a[0], b[0]), max(a[1], b[1]))


def meet(a, b):
    lo, hi = max(a[0], b[0]), min(a[1], b[1])
    return (lo, hi) if lo <= hi else None


def widen(old, new):
    lo = old[0] if new[0] >= old[0] else -INF
    hi = old[1] if new[1] <= old[1] else INF
    return (lo, hi)


def clamp_type(iv, ct):
    t = int_type(ct)
    if t is None:
        return iv
    r = type_range(t)
    m = meet(iv, r)
    if t[0]:
        # signed: leaving the range is undefined behaviour, reported separately by
        # overflow_events(); the stored value is the part inside the range
        return m or r
    # unsigned: a value outside the range wraps, i.e. is unknown within the type
    if iv[0] < r[0] or iv[1] > r[1]:
        return r
    return m or r


def path_of(n, _depth=0):
    """access path string of an integer/pointer lvalue, or None."""
    n = strip(n)
    if n is None:
        return None
    k = n["k"]
    if k == "DeclRefExpr":
        # a local reference that is bound once names the object it is bound to: `const SufHead& head = sr->h;`
        f_ = n.get("_f")
        if f_ is not None and n.get("dk") == "Var" and _depth < 4:
            from .cfg import _stable_local_inits
            ini = _stable_local_inits(f_).get(n.get("declId"))
            vd = getattr(f_, "_vardecl_ct", None)
            if vd is None:
                vd = {v.get("declId"): (v.get("ct") or v.get("t") or "") for v in f_.walk() if v["k"] == "VarDecl"}
                f_._vardecl_ct = vd
            if ini is not None and vd.get(n.get("declId"), "").rstrip().endswith("&"):
                p_ = path_of(ini, _depth + 1)
                if p_ is not None:
                    return p_
        return n.get("declId")
    if k == "MemberExpr":
        ks = kids(n)
        if not ks:
            return n.get("name")
        b = strip(ks[0])
        if b is not None and b["k"] == "CXXThisExpr":
            return "this." + n.get("name")
        bp = path_of(ks[0])
        if bp is None:
            return None
        return bp + ("->" if n.get("arrow") else ".") + n.get("name")
    if k == "UnaryOperator" and n.get("op") == "*":
        bp = path_of(kids(n)[0])
        return ("*" + bp) if bp else None
    if k == "ArraySubscriptExpr":
        bp, c = path_of(kids(n)[0]), cv(kids(n)[1])
        if bp is not None and c is not None:
            return "%s[%d]" % (bp, c)
    return None


class Env:
    """var path -> interval ; ptr path -> (array path, elem size, offset interval)"""
    __slots__ = ("iv", "ptr")

    def __init__(self, iv=None, ptr=None):
        self.iv = dict(iv or {})
        self.ptr = dict(ptr or {})

    def copy(self):
        return Env(self.iv, self.ptr)

    def join(self, o):
        r = Env()
        for k in self.iv.keys() & o.iv.keys():
            r.iv[k] = hull(self.iv[k], o.iv[k])
        for k in self.ptr.keys() & o.ptr.keys():
            a, b = self.ptr[k], o.ptr[k]
            if a[0] == b[0] and a[1] == b[1]:
                r.ptr[k] = (a[0], a[1], hull(a[2], b[2]))
        return r

    def widen(self, new):
        r = Env()
        for k in self.iv.keys() & new.iv.keys():
            r.iv[k] = widen(self.iv[k], new.iv[k])
        for k in self.ptr.keys() & new.ptr.keys():
            a, b = self.ptr[k], new.ptr[k]
            if a[0] == b[0] and a[1] == b[1]:
                r.ptr[k] = (a[0], a[1], widen(a[2], b[2]))
        return r

    def __eq__(self, o):
        return self.iv == o.iv and self.ptr == o.ptr


class Intervals:
    def __init__(self, F, f, summaries=None, member_havoc_calls=None, init=None, partition=()):
        self.F, self.f = F, f
        self.partition = tuple(partition)     # paths of flag variables used for trace partitioning
        self.cfg = f.cfg
        self.summaries = summaries or {}     # callee id -> {ret value: {callee path: interval}}
        self.member_havoc = member_havoc_calls or (lambda call: False)
        self.events = []                     # overflow events: (node, text)
        self.arrays = {}                     # array path -> (extent, elem size)
        self._collect_arrays()
        self.pre = {}                        # block -> Env at entry
        self.init = init or Env()
        self._run()

    # -- arrays ------------------------------------------------------------
    def _collect_arrays(self):
        import re
        for n in self.f.walk():
            ct = n.get("ct", "")
            m = re.match(r"^(.*)\[(\d+)\]$", ct) if n["k"] in ("DeclRefExpr", "MemberExpr", "VarDecl") else None
            if m:
                p = path_of(n) if n["k"] != "VarDecl" else n.get("declId")
                et = int_type(m.group(1).strip())
                esz = (et[1] // 8) if et else (8 if "double" in m.group(1) else (8 if "*" in m.group(1) else 1))
                if p:
                    self.arrays[p] = (int(m.group(2)), max(esz, 1))

    # -- evaluation ------------------------------------------------------------
    def ev(self, n, env):
        """interval of integer expression n in env."""
        n0 = n
        if n is None:
            return TOP
        c = cv(n) if ("cv" in n and n["k"] != "DeclRefExpr") else None
        if c is not None:
            return (c, c)
        k = n["k"]
        ks = kids(n)
        if k in TRANSPARENT:
            v = self.ev(ks[0], env) if len(ks) == 1 else TOP
            if k == "ImplicitCastExpr" and n.get("ck") == "IntegralCast":
                return clamp_type(v, n.get("ct"))
            return v
        if k in ("CStyleCastExpr", "CXXStaticCastExpr", "CXXFunctionalCastExpr"):
            v = self.ev(ks[0], env) if ks else TOP
            if n.get("ck") in ("IntegralCast", "NoOp", "LValueToRValue"):
                return clamp_type(v, n.get("ct"))
            if n.get("ck") == "FloatingToIntegral":
                t = int_type(n.get("ct"))
                return type_range(t) if t else TOP
            return clamp_type(TOP, n.get("ct"))
        if k in ("DeclRefExpr", "MemberExpr", "ArraySubscriptExpr") or (k == "UnaryOperator" and n.get("op") == "*"):
            if k == "DeclRefExpr" and "cv" in n:
                return (int(n["cv"]), int(n["cv"]))
            p = path_of(n)
            if p is not None and p in env.iv:
                return env.iv[p]
            t = int_type(n.get("ct"))
            return type_range(t) if t else TOP
        if k == "UnaryExprOrTypeTraitExpr":
            return TOP
        if k == "BinaryOperator":
            op = n["op"]
            if op in ("+", "-", "*"):
                a, b = self.ev(ks[0], env), self.ev(ks[1], env)
                if op == "+":
                    r = (a[0] + b[0], a[1] + b[1])
                elif op == "-":
                    r = (a[0] - b[1], a[1] - b[0])
                else:
                    ps = [x * y for x in a for y in b if not (abs(x) == INF and y == 0 or abs(y) == INF and x == 0)]
                    ps = ps or [0]
                    r = (min(ps), max(ps))
                t = int_type(n.get("ct"))
                if t:
                    lo, hi = type_range(t)
                    if (r[0] < lo or r[1] > hi):
                        if t[0]:
                            self.events.append((n0, "signed", r, (lo, hi)))
                            return meet(r, (lo, hi)) or (lo, hi)
                        return (lo, hi)
                return r
            if op == "&":
                b = self.ev(ks[1], env)
                a = self.ev(ks[0], env)
                m = [x for x in (a, b) if x[0] >= 0 and x[1] != INF]
                if m:
                    return (0, min(x[1] for x in m))
                return clamp_type(TOP, n.get("ct"))
            if op == "/":
                a, b = self.ev(ks[0], env), self.ev(ks[1], env)
                if b[0] > 0 and a[0] >= 0:
                    return (a[0] // b[1] if b[1] != INF else 0, a[1] // b[0] if a[1] != INF else INF)
                return clamp_type(TOP, n.get("ct"))
            if op in ("<", "<=", ">", ">=", "==", "!=", "&&", "||"):
                return (0, 1)
            if op == "=":
                return self.ev(ks[1], env)
            if op == ",":
                return self.ev(ks[1], env)
            return clamp_type(TOP, n.get("ct"))
        if k == "CompoundAssignOperator":
            p = path_of(ks[0])
            return env.iv.get(p, clamp_type(TOP, n.get("ct"))) if p else TOP
        if k == "UnaryOperator":
            op = n.get("op")
            if op in ("++", "--"):
                p = path_of(ks[0])
                v = env.iv.get(p, clamp_type(TOP, n.get("ct"))) if p else TOP
                if n.get("postfix"):        # value before the (already applied) update
                    d = -1 if op == "++" else 1
                    return (v[0] + d, v[1] + d)
                return v
            if op == "-":
                a = self.ev(ks[0], env)
                return (-a[1], -a[0])
            if op == "!":
                return (0, 1)
            return clamp_type(TOP, n.get("ct"))
        if k == "ConditionalOperator":
            et = self.refine(env.copy(), ks[0], True)
            ef = self.refine(env.copy(), ks[0], False)
            outs = []
            if et is not None:
                outs.append(self.ev(ks[1], et))
            if ef is not None:
                outs.append(self.ev(ks[2], ef))
            if not outs:
                return TOP
            r = outs[0]
            for o in outs[1:]:
                r = hull(r, o)
            return r
        if k in ("CallExpr", "CXXMemberCallExpr"):
            cal = n.get("callee", "")
            if cal in ("strlen", "std::strlen"):
                a = strip(call_args(n)[0])
                pi = self.ptr_of(a, env)
                if pi is not None and pi[0] in self.arrays:
                    ext, esz = self.arrays[pi[0]]
                    return (0, ext - 1)
                return (0, INF)
            t = int_type(n.get("ct"))
            return type_range(t) if t else TOP
        t = int_type(n.get("ct"))
        return type_range(t) if t else TOP

    def ptr_of(self, n, env):
        """(array path, elem size, offset interval in elements) of a pointer expression."""
        n = strip(n)
        if n is None:
            return None
        k = n["k"]
        if k in ("CStyleCastExpr", "CXXStaticCastExpr", "CXXReinterpretCastExpr"):
            return self.ptr_of(kids(n)[0], env)
        p = path_of(n) if k in ("DeclRefExpr", "MemberExpr") else None
        if p is not None:
            if p in self.arrays:
                return (p, self.arrays[p][1], (0, 0))
            if p in env.ptr:
                return env.ptr[p]
            return None
        if k == "BinaryOperator" and n.get("op") in ("+", "-"):
            base = self.ptr_of(kids(n)[0], env)
            if base is not None:
                o = self.ev(kids(n)[1], env)
                if n["op"] == "-":
                    o = (-o[1], -o[0])
                return (base[0], base[1], (base[2][0] + o[0], base[2][1] + o[1]))
        if k == "UnaryOperator" and n.get("op") == "&":
            t = strip(kids(n)[0])
            if t["k"] == "ArraySubscriptExpr":
                base = self.ptr_of(kids(t)[0], env)
                if base is not None:
                    o = self.ev(kids(t)[1], env)
                    return (base[0], base[1], (base[2][0] + o[0], base[2][1] + o[1]))
        return None

    # -- refinement ----------------------------------------------------------------
    def refine(self, env, cond, pol):
        """env refined by cond having truth pol; None if infeasible."""
        c = strip(cond)
        if c is None:
            return env
        k = c["k"]
        if k == "UnaryOperator" and c.get("op") == "!":
            return self.refine(env, kids(c)[0], not pol)
        if k in ("CallExpr", "CXXMemberCallExpr") and c.get("calleeId"):
            # a one-line pure predicate of the code base (is_dec_digit(c)): refine by its body on the arguments
            from .cfg import _pure_predicate, _subst_params, call_args as _ca
            g_ = getattr(self.F, "_by_id", {}).get(c["calleeId"])
            e_ = _pure_predicate(g_) if g_ is not None else None
            if e_ is not None and len(_ca(c)) == len(g_.params) and not getattr(self, "_inl", 0):
                binding = {p_["declId"]: strip(a_) for p_, a_ in zip(g_.params, _ca(c))}
                self._inl = 1
                try:
                    return self.refine(env, _subst_params(strip(e_), binding), pol)
                finally:
                    self._inl = 0
        if k == "BinaryOperator" and c.get("op") == "&&":
            if pol:
                e = self.refine(env, kids(c)[0], True)
                return self.refine(e, kids(c)[1], True) if e is not None else None
            a = self.refine(env.copy(), kids(c)[0], False)
            b0 = self.refine(env.copy(), kids(c)[0], True)
            b = self.refine(b0, kids(c)[1], False) if b0 is not None else None
            return a.join(b) if a is not None and b is not None else (a or b)
        if k == "BinaryOperator" and c.get("op") == "||":
            if not pol:
                e = self.refine(env, kids(c)[0], False)
                return self.refine(e, kids(c)[1], False) if e is not None else None
            a = self.refine(env.copy(), kids(c)[0], True)
            b0 = self.refine(env.copy(), kids(c)[0], False)
            b = self.refine(b0, kids(c)[1], True) if b0 is not None else None
            return a.join(b) if a is not None and b is not None else (a or b)
        if k == "BinaryOperator" and c.get("op") in ("<", "<=", ">", ">=", "==", "!="):
            op = c["op"]
            if not pol:
                op = {"<": ">=", "<=": ">", ">": "<=", ">=": "<", "==": "!=", "!=": "=="}[op]
            a, b = kids(c)
            for x, y, o in ((a, b, op), (b, a, {"<": ">", "<=": ">=", ">": "<", ">=": "<=", "==": "==", "!=": "!="}[op])):
                xs = strip(x, casts=True)
                # assignment inside a condition: (c = *s++) < '0'
                while xs is not None and xs["k"] == "BinaryOperator" and xs.get("op") == "=":
                    xs = strip(kids(xs)[0])
                p = path_of(xs)
                if p is None:
                    continue
                cur = env.iv.get(p)
                if cur is None:
                    t = int_type(xs.get("ct"))
                    cur = type_range(t) if t else TOP
                yv = self.ev(y, env)
                if o == "<":
                    new = meet(cur, (-INF, yv[1] - 1))
                elif o == "<=":
                    new = meet(cur, (-INF, yv[1]))
                elif o == ">":
                    new = meet(cur, (yv[0] + 1, INF))
                elif o == ">=":
                    new = meet(cur, (yv[0], INF))
                elif o == "==":
                    new = meet(cur, yv)
                else:
                    new = cur
                    if yv[0] == yv[1]:
                        if cur[0] == yv[0]:
                            new = (cur[0] + 1, cur[1]) if cur[0] + 1 <= cur[1] else None
                        elif cur[1] == yv[0]:
                            new = (cur[0], cur[1] - 1) if cur[0] <= cur[1] - 1 else None
                if new is None:
                    return None
                env.iv[p] = new
            return env
        # truthiness of an integer lvalue / assignment
        xs = c
        while xs is not None and xs["k"] == "BinaryOperator" and xs.get("op") == "=":
            xs = strip(kids(xs)[0])
        p = path_of(xs)
        if p is not None and int_type(xs.get("ct")) is not None:
            cur = env.iv.get(p, type_range(int_type(xs.get("ct"))))
            if pol:
                if cur == (0, 0):
                    return None
                if cur[0] == 0:
                    env.iv[p] = (1, cur[1])
                elif cur[1] == 0:
                    env.iv[p] = (cur[0], -1)
            else:
                m = meet(cur, (0, 0))
                if m is None:
                    return None
                env.iv[p] = m
            return env
        # call with a summary: result tested for zero / non-zero
        if c["k"] in ("CallExpr", "CXXMemberCallExpr") and c.get("calleeId") in self.summaries:
            post = self.summaries[c["calleeId"]].get(0 if not pol else "nonzero")
            if post:
                self.apply_post(env, c, post)
            return env
        return env

    def apply_post(self, env, call, post):
        """post: {callee path: interval}; callee param paths mapped to argument paths."""
        g = self.F.by_id.get(call.get("calleeId"))
        if g is None:
            return
        args = call_args(call)
        for cp, iv in post.items():
            for p, a in zip(g.params, args):
                pd = p["declId"]
                a = strip(a)
                tgt = None
                if cp.startswith("*" + pd) and a["k"] == "UnaryOperator" and a.get("op") == "&":
                    tgt = path_of(kids(a)[0])
                    rest = cp[len("*" + pd):]
                    tgt = tgt + rest if tgt else None
                elif cp.startswith(pd + "->") and a["k"] == "UnaryOperator" and a.get("op") == "&":
                    base = path_of(kids(a)[0])
                    tgt = base + "." + cp[len(pd + "->"):] if base else None
                if tgt:
                    env.iv[tgt] = iv

    # -- transfer -----------------------------------------------------------------------
    def havoc(self, env, p):
        for d in (env.iv, env.ptr):
            for k in [k for k in d if k == p or k.startswith(p + ".") or k.startswith(p + "->")
                      or k.startswith(p + "[") or k.startswith("*" + p)]:
                del d[k]

    def exec_node(self, n, env):
        k = n["k"]
        ks = kids(n)
        if k == "DeclStmt":
            for v in ks:
                if v["k"] == "VarDecl" and kids(v):
                    self.assign(env, v.get("declId"), v, kids(v)[0])
                elif v["k"] == "VarDecl":
                    self.havoc(env, v.get("declId"))
            return
        if k == "BinaryOperator" and n.get("op") == "=":
            p = path_of(ks[0])
            if p:
                self.assign(env, p, strip(ks[0]), ks[1])
            else:
                t = strip(ks[0])
                if t is not None and t["k"] == "ArraySubscriptExpr":
                    bp = path_of(kids(t)[0])
                    if bp:
                        for key in [key for key in env.iv if key.startswith(bp + "[")]:
                            del env.iv[key]
            return
        if k == "CompoundAssignOperator":
            p = path_of(ks[0])
            if p:
                cur = env.iv.get(p)
                if cur is not None:
                    b = self.ev(ks[1], env)
                    op = n.get("op")
                    if op == "+=":
                        r = (cur[0] + b[0], cur[1] + b[1])
                    elif op == "-=":
                        r = (cur[0] - b[1], cur[1] - b[0])
                    else:
                        r = TOP
                    env.iv[p] = clamp_type(r, strip(ks[0]).get("ct"))
                if p in env.ptr:
                    b = self.ev(ks[1], env)
                    a = env.ptr[p]
                    if n.get("op") == "+=":
                        env.ptr[p] = (a[0], a[1], (a[2][0] + b[0], a[2][1] + b[1]))
                    else:
                        del env.ptr[p]
            return
        if k == "UnaryOperator" and n.get("op") in ("++", "--"):
            p = path_of(ks[0])
            d = 1 if n["op"] == "++" else -1
            if p:
                if p in env.iv:
                    c = env.iv[p]
                    env.iv[p] = clamp_type((c[0] + d, c[1] + d), strip(ks[0]).get("ct"))
                if p in env.ptr:
                    a = env.ptr[p]
                    env.ptr[p] = (a[0], a[1], (a[2][0] + d, a[2][1] + d))
                for key in [key for key in env.iv if key.startswith("*" + p)]:
                    del env.iv[key]
            return
        if k in ("CallExpr", "CXXMemberCallExpr", "CXXOperatorCallExpr", "CXXConstructExpr"):
            # anything whose address is passed may be written
            callee_ = getattr(self.F, "_by_id", {}).get(n.get("calleeId")) if n.get("calleeId") else None
            args_ = (ks[1:] if k != "CXXConstructExpr" else ks)
            ptypes_ = {}
            if callee_ is not None:
                off_ = 1 if k == "CXXOperatorCallExpr" else 0          # the closure / object comes first
                for ix_, p_ in enumerate(callee_.params):
                    ptypes_[ix_ + off_] = (p_.get("ct") or p_.get("t") or "")
            for ai_, a in enumerate(args_):
                if ai_ in ptypes_ and not ptypes_[ai_].rstrip().endswith(("&", "*")):
                    continue                                           # passed by value to a callee whose signature is known
                for x in walk(a):
                    if x["k"] == "UnaryOperator" and x.get("op") == "&":
                        p = path_of(kids(x)[0])
                        if p:
                            self.havoc(env, p)
                t = strip(a)
                if t is not None and t["k"] in ("DeclRefExpr", "MemberExpr") and t.get("lv") and \
                        not (t.get("ct") or "").startswith("const") and k != "CXXConstructExpr":
                    # non-const lvalue argument (possible reference parameter): only if the
                    # callee is not a known by-value library function
                    if not n.get("sys"):
                        p = path_of(t)
                        if p:
                            self.havoc(env, p)
            if self.member_havoc(n):
                for key in [key for key in list(env.iv) + list(env.ptr) if key.startswith("this.")]:
                    env.iv.pop(key, None)
                    env.ptr.pop(key, None)
            return

    def assign(self, env, p, lhs_node, rhs):
        ct = lhs_node.get("ct", "")
        if ct.endswith("*"):
            pi = self.ptr_of(rhs, env)
            self.havoc(env, p)
            if pi is not None:
                env.ptr[p] = pi
            return
        v = self.ev(rhs, env) if int_type(ct) is not None else None
        self.havoc(env, p)
        if v is not None:
            env.iv[p] = clamp_type(v, ct)

    # -- fixpoint --------------------------------------------------------------------------
    def key_of(self, env):
        out = []
        for p in self.partition:
            v = env.iv.get(p)
            out.append(v[0] if v is not None and v[0] == v[1] else None)
        return tuple(out)

    def flow_block(self, b, env):
        """executes block b on env; returns [(succ, env')] with branch refinement."""
        cfg = self.cfg
        env = env.copy()
        saved = self.events
        self.events = []
        for e in cfg.blocks[b]["el"]:
            n = self.f.nodes.get(e)
            if n is not None:
                self.exec_node(n, env)
        self.events = saved
        blk = cfg.blocks[b]
        succs = cfg.succ[b]
        out = []
        for i, s_ in enumerate(succs):
            if s_ is None:
                continue
            e2 = env.copy()
            cond = self.f.nodes.get(blk.get("cond", -1))
            term = self.f.nodes.get(blk.get("term", -1))
            if cond is not None and len(succs) == 2 and (term is None or term["k"] != "SwitchStmt"):
                e2 = self.refine(e2, cond, i == 0)
                if e2 is None:
                    continue
            elif term is not None and term["k"] == "SwitchStmt" and cond is not None:
                lab = self.f.nodes.get(cfg.blocks[s_].get("label", -1))
                if lab is not None and lab["k"] == "CaseStmt":
                    v = cv(kids(lab)[0])
                    p = path_of(cond)
                    if p and v is not None:
                        e2.iv[p] = (v, v)
            out.append((s_, e2))
        return out

    def _run(self):
        cfg = self.cfg
        live = cfg.live_blocks()
        # state: block -> {partition key -> Env}
        self.pstate = {cfg.entry: {self.key_of(self.init): self.init.copy()}}
        visits = {}
        # widening points: targets of back edges (DFS)
        heads = set()
        color = {}
        stack = [(cfg.entry, iter(cfg.succs(cfg.entry)))]
        color[cfg.entry] = 1
        while stack:
            v, it = stack[-1]
            nxt = next(it, None)
            if nxt is None:
                color[v] = 2
                stack.pop()
                continue
            if color.get(nxt) == 1:
                heads.add(nxt)
            elif nxt not in color:
                color[nxt] = 1
                stack.append((nxt, iter(cfg.succs(nxt))))
        self.loop_heads = heads
        work = deque([cfg.entry])
        inq = {cfg.entry}
        steps = 0
        while work and steps < 40000:
            steps += 1
            b = work.popleft()
            inq.discard(b)
            for key, env in list(self.pstate[b].items()):
                for s_, e2 in self.flow_block(b, env):
                    if s_ not in live:
                        continue
                    k2 = self.key_of(e2)
                    st = self.pstate.setdefault(s_, {})
                    old = st.get(k2)
                    if old is None:
                        st[k2] = e2
                    else:
                        new = old.join(e2)
                        visits[(s_, k2)] = visits.get((s_, k2), 0) + 1
                        if visits[(s_, k2)] > 3 and (s_ in heads or visits[(s_, k2)] > 40):
                            new = old.widen(new)
                        if new == old:
                            continue
                        st[k2] = new
                    if s_ not in inq:
                        work.append(s_)
                        inq.add(s_)
        # narrowing: two descending sweeps without widening
        for _ in range(2):
            for b in sorted(self.pstate, reverse=True):
                if b == cfg.entry:
                    continue
                acc = {}
                for p in cfg.pred[b]:
                    for key, env in self.pstate.get(p, {}).items():
                        for s_, e2 in self.flow_block(p, env):
                            if s_ != b:
                                continue
                            k2 = self.key_of(e2)
                            acc[k2] = e2 if k2 not in acc else acc[k2].join(e2)
                for k2, a in acc.items():
                    old = self.pstate[b].get(k2)
                    if old is None:
                        continue
                    r = Env()
                    for k_ in old.iv.keys() & a.iv.keys():
                        m = meet(old.iv[k_], a.iv[k_])
                        if m:
                            r.iv[k_] = m
                    for k_ in old.ptr.keys() & a.ptr.keys():
                        x, y = old.ptr[k_], a.ptr[k_]
                        if x[0] == y[0]:
                            m = meet(x[2], y[2])
                            if m:
                                r.ptr[k_] = (x[0], x[1], m)
                    self.pstate[b][k2] = r
        self.pre = {}
        for b, st in self.pstate.items():
            envs = list(st.values())
            e = envs[0]
            for o in envs[1:]:
                e = e.join(o)
            self.pre[b] = e

    def envs_before(self, node):
        """list of environments (one per partition) right before `node` executes."""
        pos = self.cfg.position(node)
        if pos is None or pos[0] not in self.pstate:
            return []
        out = []
        for env in self.pstate[pos[0]].values():
            env = env.copy()
            se = self.events
            self.events = []
            for e in self.cfg.blocks[pos[0]]["el"][:pos[1]]:
                n = self.f.nodes.get(e)
                if n is not None:
                    self.exec_node(n, env)
            self.events = se
            out.append(env)
        return out

    def env_before(self, node):
        """environment right before the CFG element containing `node` executes."""
        pos = self.cfg.position(node)
        if pos is None or pos[0] not in self.pre:
            return None
        env = self.pre[pos[0]].copy()
        se = self.events
        self.events = []
        for e in self.cfg.blocks[pos[0]]["el"][:pos[1]]:
            n = self.f.nodes.get(e)
            if n is not None:
                self.exec_node(n, env)
        self.events = se
        return env

    def overflow_events(self):
        """Re-evaluate every arithmetic node once in its fixpoint environment and
        report possible signed overflows."""
        out = []
        seen = set()
        for n in self.f.walk():
            if n["k"] == "BinaryOperator" and n.get("op") in ("+", "-", "*") and int_type(n.get("ct")) and int_type(n.get("ct"))[0]:
                env = self.env_before(n)
                if env is None:
                    continue
                self.events = []
                self.ev(n, env)
                for (nn, kind, r, tr) in self.events:
                    if nn["i"] not in seen:
                        seen.add(nn["i"])
                        out.append((nn, r, tr))
        self.events = []
        return out

    def summary(self):
        """{return constant: {path: interval}} over `return <const>` statements."""
        out = {}
        for r in self.f.find(lambda n: n["k"] == "ReturnStmt" and kids(n)):
            c = cv(kids(r)[0])
            if c is None:
                continue
            env = self.env_before(r)
            if env is None:
                continue
            key = 0 if c == 0 else "nonzero"
            cur = out.get(key)
            d = dict(env.iv)
            if cur is None:
                out[key] = d
            else:
                out[key] = {k: hull(cur[k], d[k]) for k in cur.keys() & d.keys()}
        return out
