"""Runs the exporter `tool/mpx` on units of the repository and loads the facts."""
import hashlib, json, os, subprocess, sys, time
from concurrent.futures import ThreadPoolExecutor
from . import units

MPX = os.path.join(units.VERIF, "tool", "mpx")
CACHE = os.environ.get("MPSA_CACHE", os.path.join(units.VERIF, ".cache"))


class AnalysisBroken(Exception):
    """The analysis cannot be carried out (exit 2): anchor vanished, unit does
    not parse, floor not met, construct outside the supported fragment."""


_tree_stamp = {}


def tree_stamp(repo):
    if repo in _tree_stamp:
        return _tree_stamp[repo]
    h = hashlib.sha1()
    for d in units.SOURCE_DIRS:
        top = os.path.join(repo, d)
        for root, dirs, files in os.walk(top):
            dirs.sort()
            for f in sorted(files):
                if not f.endswith((".h", ".hpp", ".cc", ".cpp", ".c", ".inc", ".rst")):
                    continue
                p = os.path.join(root, f)
                try:
                    with open(p, "rb") as fh:
                        h.update(p.encode()); h.update(b"\0"); h.update(fh.read())
                except OSError:
                    pass
    for p in (MPX, os.path.join(units.VERIF, "tool", "stubs", "funcadd.h")):
        try:
            st = os.stat(p)
            h.update(("%s %d %d" % (p, st.st_size, int(st.st_mtime))).encode())
        except OSError:
            pass
    _tree_stamp[repo] = h.hexdigest()
    return _tree_stamp[repo]


def ensure_mpx():
    src = os.path.join(units.VERIF, "tool", "mpx.cc")
    if (not os.path.exists(MPX)) or os.path.getmtime(MPX) < os.path.getmtime(src):
        r = subprocess.run(["make", "-C", os.path.join(units.VERIF, "tool")],
                           stdout=subprocess.PIPE, stderr=subprocess.STDOUT)
        if r.returncode != 0:
            raise AnalysisBroken("cannot build tool/mpx:\n" + r.stdout.decode()[-2000:])


def export(unit, fn=(), rec=(), var=(), enum=(), callgraph=False, repo=None,
           ndebug=True, kind=None, extra_flags=(), path=None):
    """Facts of one unit.  `unit` is relative to the repository unless `path`
    (absolute file to parse instead, e.g. a regenerated source) is given."""
    repo = repo or units.REPO
    ensure_mpx()
    kind = kind or units.UNITS[unit]
    src = path or os.path.join(repo, unit)
    if not os.path.exists(src):
        raise AnalysisBroken("unit %s does not exist" % src)
    fl = units.flags(kind, repo, ndebug) + list(extra_flags)
    args = [MPX]
    for r in fn: args += ["--fn", r]
    for r in rec: args += ["--rec", r]
    for r in var: args += ["--var", r]
    for r in enum: args += ["--enum", r]
    if callgraph: args.append("--callgraph")
    key = hashlib.sha1(json.dumps([tree_stamp(repo), src, args[1:], fl]).encode()).hexdigest()
    os.makedirs(CACHE, exist_ok=True)
    out = os.path.join(CACHE, key + ".json")
    if not os.path.exists(out):
        tmp = out + ".tmp%d" % os.getpid()
        cmd = args + ["-o", tmp, src, "--"] + fl
        r = subprocess.run(cmd, stdout=subprocess.PIPE, stderr=subprocess.PIPE)
        if r.returncode != 0:
            try: os.unlink(tmp)
            except OSError: pass
            raise AnalysisBroken("mpx failed on %s:\n%s" % (unit, r.stderr.decode()[-3000:]))
        os.replace(tmp, out)
    with open(out) as fh:
        d = json.load(fh)
    d["_unit"] = unit
    return d


def _ere_escape(t):
    return "".join(("\\" + ch) if ch in "\\.[]()*+?{}|^$" else ch for ch in t)


def export_closure(depth=2, roots=None, **job):
    """export(), then add the user functions called from the exported ones (helpers a refactoring may have
    extracted) until nothing new turns up or `depth` rounds were made.  System-header callees are never followed."""
    fn = list(job.get("fn") or ())
    d = export(**dict(job, fn=fn))
    followed = set()
    for _ in range(depth):
        have = {f["id"] for f in d.get("functions", [])}
        want = set()

        def scan(n):
            if n is None:
                return
            if n.get("k") in ("CallExpr", "CXXMemberCallExpr", "CXXConstructExpr") and n.get("calleeId") and \
                    n["calleeId"] not in have and not n.get("sys") and n.get("callee"):
                want.add(n["callee"])
            for c in n.get("c") or ():
                scan(c)
        import re as _re
        for f in d.get("functions", []):
            if roots is not None and not _re.search(roots, f.get("qn") or "") and f.get("qn") not in followed:
                continue
            for b in list(f.get("body") or []) + list(f.get("inits") or []):
                scan(b)
        followed |= want
        new = ["^" + _ere_escape(q) + "$" for q in sorted(want) if ("^" + _ere_escape(q) + "$") not in fn]
        if not new or len(new) > 150:
            break
        fn += new
        d = export(**dict(job, fn=fn))
    return d


def export_many(jobs, workers=16):
    """jobs: list of dict(kwargs for export).  Parallel."""
    def one(j):
        j = dict(j)
        cl = j.pop("closure", 0)
        rt = j.pop("closure_roots", None)
        return export_closure(depth=cl, roots=rt, **j) if cl else export(**j)
    with ThreadPoolExecutor(max_workers=workers) as ex:
        futs = [ex.submit(one, j) for j in jobs]
        return [f.result() for f in futs]


def clean_cache(max_files=400):
    try:
        fs = sorted((os.path.join(CACHE, f) for f in os.listdir(CACHE)),
                    key=os.path.getmtime)
    except OSError:
        return
    for f in fs[:-max_files]:
        try: os.unlink(f)
        except OSError: pass
