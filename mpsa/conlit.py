"""Abstract interpretation of small constraint-building functions (the MIP converters).

Domain: scalars are affine forms over opaque symbols ({sym: coef, '': const}); vectors are lists of
segments ('rep', count, element) / ('one', element) with a symbolic count; a constraint value is
(sense, [(coef, var) terms as parallel vectors], rhs); an indicator is (binary, value, constraint).
Loops over the argument list are executed once with the loop variable bound to the generic element
`args[i]`, and everything emitted inside is marked `each=True`.  Conditions are collected as path atoms;
compile-time constants are folded.  Anything outside this fragment raises Unsupported (the caller turns
that into analysis-broken, never into a verdict).
"""
import re
from .cfg import kids, strip, cv, render, call_args, call_object, walk


class Unsupported(Exception):
    pass


def aff_add(a, b, sb=1.0):
    out = dict(a)
    for t, v in b.items():
        out[t] = out.get(t, 0.0) + sb * v
    return {t: v for t, v in out.items() if v != 0}


def aff_scale(a, k):
    return {t: v * k for t, v in a.items() if v * k != 0}


def aff_const(a):
    return a.get("", 0.0) if set(a) <= {""} else None


def aff_txt(a):
    if not a:
        return "0"
    parts = []
    for t in sorted(a, key=lambda x: (x == "", x)):
        v = a[t]
        if t == "":
            parts.append("%g" % v)
        elif v == 1:
            parts.append(t)
        elif v == -1:
            parts.append("-" + t)
        else:
            parts.append("%g*%s" % (v, t))
    return "+".join(parts).replace("+-", "-")


class Vec:
    def __init__(self, segs):
        self.segs = list(segs)          # ('rep', count_aff, elem) | ('one', elem)

    def copy(self):
        return Vec(self.segs)

    def size(self):
        n = {}
        for s in self.segs:
            n = aff_add(n, s[1] if s[0] == "rep" else {"": 1.0})
        return n

    def push_back(self, e):
        self.segs.append(("one", e))

    def set_front(self, e):
        if not self.segs:
            raise Unsupported("front() of an empty vector")
        s = self.segs[0]
        if s[0] == "one":
            self.segs[0] = ("one", e)
        else:
            self.segs[0:1] = [("one", e), ("rep", aff_add(s[1], {"": -1.0}), s[2])]

    def set_back(self, e):
        s = self.segs[-1]
        if s[0] == "one":
            self.segs[-1] = ("one", e)
        else:
            self.segs[-1:] = [("rep", aff_add(s[1], {"": -1.0}), s[2]), ("one", e)]

    def canon_segs(self):
        """a repeated segment of constant length 1 whose element does not depend on the position is a single element"""
        out = []
        for s in self.segs:
            if s[0] == "rep" and aff_const(s[1]) == 1 and "[*]" not in (aff_txt(s[2]) if isinstance(s[2], dict) else str(s[2])):
                out.append(("one", s[2]))
            else:
                out.append(s)
        return out

    def norm(self):
        out = []
        for s in self.canon_segs():
            if s[0] == "rep" and aff_const(s[1]) == 0:
                continue
            out.append((s[0], aff_txt(s[1]) if s[0] == "rep" else None, aff_txt(s[-1]) if isinstance(s[-1], dict) else str(s[-1])))
        return tuple(out)


class Interp:
    def __init__(self, f, byfull=None, consts=None):
        self.f = f
        self.byfull = byfull or {}
        self.emitted = []           # (path conds, each, descriptor)
        self.newvar = 0
        self.consts = consts or {}
        self.cur = ([], False)

    # ---- helpers ------------------------------------------------------------------------------
    def fresh(self, what):
        self.newvar += 1
        return "%s#%d" % (what, self.newvar)

    def run(self):
        self.block(self.f.body, {}, [], False)
        return self.emitted

    cond_reg = {}        # condition text -> (function, node): lets a rule look at the structure of a path condition

    def cond_txt(self, c):
        t = re.sub(r"\s+", "", render(c)).replace("this->", "").replace("GetMC().", "")
        Interp.cond_reg[t] = (self.f, c)
        return t

    # ---- statements ---------------------------------------------------------------------------
    def block(self, s, env, conds, each):
        """returns list of (env, conds) continuations"""
        if s is None:
            return [(env, conds)]
        self.cur = (conds, each)
        k = s["k"]
        if k == "CompoundStmt":
            states = [(env, conds)]
            for x in s.get("c", []):
                if x is None:
                    continue
                nxt = []
                for e1, c1 in states:
                    nxt += self.block(x, e1, c1, each)
                states = nxt
            return states
        if k == "DeclStmt":
            env = dict(env)
            for v in kids(s):
                if v["k"] == "VarDecl":
                    env[v["declId"]] = self.init_value(v, env)
            return [(env, conds)]
        if k == "IfStmt":
            real = [x for x in s.get("c", []) if x is not None]
            cnd, then = real[0], real[1]
            els = real[2] if len(real) > 2 else None
            val = cv(cnd)
            out = []
            if val is None or val:
                out += self.block(then, dict(env), conds + ([(self.cond_txt(cnd), True)] if val is None else []), each)
            if val is None or not val:
                out += self.block(els, dict(env), conds + ([(self.cond_txt(cnd), False)] if val is None else []), each)
            return out
        if k == "CXXForRangeStmt":
            ch = [x for x in s.get("c", []) if x is not None]
            body = ch[-1]
            lv = [x for x in walk(s) if x["k"] == "VarDecl" and x.get("name") and not x["name"].startswith("__")]
            rng = [x for x in walk(s) if x["k"] == "VarDecl" and (x.get("name") or "").startswith("__range")]
            if not lv or not rng:
                raise Unsupported("range-for shape")
            seq = self.value(kids(rng[0])[0], env)
            if not isinstance(seq, Vec) or len(seq.segs) != 1 or seq.segs[0][0] != "rep":
                raise Unsupported("range-for over %s" % render(kids(rng[0])[0])[:40])
            el = seq.segs[0][2]
            env2 = dict(env)
            env2[lv[0]["declId"]] = generic(el)
            self.block(body, env2, conds, True)
            return [(env, conds)]
        if k == "ForStmt":
            ch = s.get("c", [])
            init = ch[0]
            body = [x for x in ch if x is not None][-1]
            env2 = dict(env)
            lo = hi = None
            lvd = None
            if init is not None:
                for v in walk(init):
                    if v["k"] == "VarDecl":
                        lvd = v["declId"]
                        env2[lvd] = {"i": 1.0}     # the generic index
                        lo = self.value(kids(v)[0], env) if kids(v) else {}
            cnd = ch[2] if len(ch) > 2 else None
            if cnd is not None and lvd is not None:
                c0 = strip(cnd)
                if c0["k"] == "BinaryOperator" and c0.get("op") in ("<", "!=") and strip(kids(c0)[0]).get("declId") == lvd:
                    hi = self.value(kids(c0)[1], env)
                elif c0["k"] == "BinaryOperator" and c0.get("op") == "!=" and strip(kids(c0)[0]).get("declId") == lvd:
                    hi = self.value(kids(c0)[1], env)
            env2["__range"] = (lo, hi)
            st = self.block(body, env2, conds, True)
            # assignments to outer containers inside the loop (flags[ivar] = ...) are kept; paths are merged
            out_env = dict(env)
            for d_ in env:
                vs = [e1[d_] for e1, _ in st if isinstance(e1.get(d_), Vec)]
                if not vs:
                    continue
                norms = {v_.norm() for v_ in vs}
                if len(norms) == 1:
                    out_env[d_] = vs[0]
                else:
                    out_env[d_] = merge_vecs(vs)
            out_env.pop("__range", None)
            return [(out_env, conds)]
        if k == "ReturnStmt":
            return []
        if k in ("NullStmt",):
            return [(env, conds)]
        # expression statement
        return self.expr_stmt(s, env, conds, each)

    def expr_stmt(self, s, env, conds, each):
        e = strip(s)
        while e["k"] in ("ExprWithCleanups", "ParenExpr", "CXXBindTemporaryExpr", "CStyleCastExpr") and kids(e):
            e = strip(kids(e)[0])
        if s.get("mo") == "assert" or e.get("mo") == "assert":
            return [(env, conds)]
        if e["k"] == "CXXMemberCallExpr":
            nm = (e.get("callee") or "").split("::")[-1]
            if nm in ("AddConstraint", "AddConstraint_AS_ROOT"):
                self.emitted.append((list(conds), each, self.value(call_args(e)[0], env)))
                return [(env, conds)]
            if nm in ("push_back", "emplace_back"):
                o = strip(call_object(e))
                env = dict(env)
                v = env.get(o.get("declId"))
                if not isinstance(v, Vec):
                    raise Unsupported("push_back on %s" % render(o))
                v = v.copy()
                v.push_back(self.value(call_args(e)[0], env))
                env[o["declId"]] = v
                return [(env, conds)]
            if nm == "add_term":
                o = strip(call_object(e))
                env = dict(env)
                cur = env.get(o.get("declId"))
                if isinstance(cur, dict):
                    a_ = [self.show(self.value(x, env)) for x in call_args(e)]
                    env[o["declId"]] = {"(%s + %s*%s)" % (aff_txt(cur), a_[0], a_[1]): 1.0}
                    return [(env, conds)]
                raise Unsupported("add_term on %s" % render(o))
            if nm in ("NarrowVarBounds", "FixAsTrue", "PropagateResultOfInitExpr", "RedefineVariable", "AddWarning", "TurnOffAutoLinking", "AddEntry", "set_var_lb_context", "set_var_ub_context",
                      "narrow_result_bounds", "set_result_type", "set_result_var"):
                self.emitted.append((list(conds), each, ("call", nm) + tuple(self.show(self.value(a, env)) for a in call_args(e))))
                return [(env, conds)]
            g = self.byfull.get(e.get("calleeFull") or "")
            if g is not None and g is not self.f:
                sub = Interp(g, self.byfull)
                sub.newvar = self.newvar
                env2 = {}
                for p, a in zip(g.params, call_args(e)):
                    env2[p["declId"]] = self.value(a, env)
                sub.block(g.body, env2, [], False)
                self.newvar = sub.newvar
                for c2, e2, d2 in sub.emitted:
                    self.emitted.append((list(conds) + c2, each or e2, d2))
                return [(env, conds)]
        if e["k"] in ("BinaryOperator", "CXXOperatorCallExpr") and e.get("op") == "=":
            lhs, rhs = (kids(e) if e["k"] == "BinaryOperator" else call_args(e))
            return [(self.assign(lhs, rhs, env), conds)]
        if e["k"] in ("CallExpr", "CXXMemberCallExpr", "CXXOperatorCallExpr", "UnaryOperator", "BinaryOperator", "CompoundAssignOperator"):
            if (e.get("callee") or "").split("::")[-1] in ("iota", "fill", "assign"):
                raise Unsupported("algorithm %s" % e.get("callee"))
            if e["k"] == "UnaryOperator" and e.get("op") in ("++", "--"):
                return [(env, conds)]
            if e["k"] == "CXXThrowExpr":
                return []
            if any(x["k"] == "CXXThrowExpr" for x in walk(e)):
                return []
            raise Unsupported("statement %s" % render(e)[:60])
        if e["k"] == "CXXThrowExpr":
            return []
        if e["k"] in ("DeclRefExpr", "IntegerLiteral", "FloatingLiteral", "MemberExpr"):
            return [(env, conds)]          # expression statement without effect, e.g. (void)x;
        raise Unsupported("statement kind %s" % e["k"])

    def assign(self, lhs, rhs, env):
        lhs = strip(lhs)
        env = dict(env)
        val = self.value(rhs, env)
        if lhs["k"] == "DeclRefExpr":
            env[lhs["declId"]] = val
            return env
        # container element / front() / back()
        base, how = None, None
        if lhs["k"] == "CXXOperatorCallExpr" and lhs.get("op") == "[]":
            base, idx = call_args(lhs)
            how = ("idx", self.value(idx, env))
        elif lhs["k"] == "ArraySubscriptExpr":
            base, idx = kids(lhs)
            how = ("idx", self.value(idx, env))
        elif lhs["k"] == "CXXMemberCallExpr" and (lhs.get("callee") or "").split("::")[-1] in ("front", "back"):
            base = call_object(lhs)
            how = ((lhs["callee"].split("::")[-1]), None)
        if base is None:
            raise Unsupported("assignment to %s" % render(lhs)[:40])
        b = strip(base)
        v = env.get(b.get("declId"))
        if not isinstance(v, Vec):
            raise Unsupported("element assignment on %s" % render(b))
        v = v.copy()
        if how[0] == "front":
            v.set_front(val)
        elif how[0] == "back":
            v.set_back(val)
        else:
            ix = how[1]
            c = aff_const(ix) if isinstance(ix, dict) else None
            if c is not None:
                # fixed position: expand leading 'one' segments only
                pos = int(c)
                if pos < len(v.segs) and all(s[0] == "one" for s in v.segs[:pos + 1]):
                    v.segs[pos] = ("one", val)
                elif pos == 0:
                    v.set_front(val)
                else:
                    raise Unsupported("indexed assignment at %d" % pos)
            elif isinstance(ix, dict) and set(ix) - {""} == {"i"}:
                # generic index: every element of the (single) repeated segment containing it
                lo, hi = env.get("__range", (None, None))
                if lo is None or hi is None:
                    raise Unsupported("generic index without a known loop range")
                # a segment that is exactly [lo, hi): replace its element
                start = {}
                hit = None
                for j, sg in enumerate(v.segs):
                    ln = sg[1] if sg[0] == "rep" else {"": 1.0}
                    if sg[0] == "rep" and aff_txt(start) == aff_txt(lo) and aff_txt(aff_add(start, ln)) == aff_txt(hi):
                        hit = j
                        break
                    start = aff_add(start, ln)
                if hit is not None:
                    v.segs[hit] = ("rep", v.segs[hit][1], generic(val))
                    env[b["declId"]] = v
                    return env
                reps = [j for j, s in enumerate(v.segs) if s[0] == "rep"]
                if len(reps) != 1 or reps[0] != 0:
                    raise Unsupported("generic index into %s" % (v.norm(),))
                j = reps[0]
                total, old = v.segs[j][1], v.segs[j][2]
                new = []
                if aff_const(lo) != 0:
                    new.append(("rep", lo, old))
                new.append(("rep", aff_add(hi, lo, -1.0), generic(val)))
                rest = aff_add(total, hi, -1.0)
                if aff_const(rest) != 0:
                    new.append(("rep", rest, old))
                v.segs[j:j + 1] = new
            else:
                raise Unsupported("index %s" % (ix,))
        env[b["declId"]] = v
        return env

    def init_value(self, v, env):
        ct = (v.get("ct") or "")
        ks = kids(v)
        if not ks:
            if "std::vector" in ct or "std::array" in ct:
                return Vec([])
            return {v.get("name") or "?": 1.0}
        return self.value(ks[0], env, want=ct)

    # ---- expressions ---------------------------------------------------------------------------
    def show(self, v):
        if isinstance(v, Vec):
            return ("vec",) + v.norm()
        if isinstance(v, dict):
            return aff_txt(v)
        return v

    def value(self, e, env, want=None):
        e0 = e
        e = strip(e)
        while e["k"] in ("ExprWithCleanups", "ParenExpr", "CXXBindTemporaryExpr", "MaterializeTemporaryExpr", "CXXFunctionalCastExpr", "CStyleCastExpr", "CXXStaticCastExpr", "CXXStdInitializerListExpr") and kids(e):
            if e["k"] in ("CStyleCastExpr", "CXXFunctionalCastExpr", "CXXStaticCastExpr") and cv(e) is not None:
                break
            e = strip(kids(e)[0])
        k = e["k"]
        c = cv(e)
        if c is not None and k != "DeclRefExpr":
            return {"": float(c)} if float(c) else {}
        if k in ("FloatingLiteral", "IntegerLiteral"):
            x = float(e.get("v"))
            return {"": x} if x else {}
        if "cv" in e and k != "DeclRefExpr":
            try:
                x = float(e["cv"])
                return {"": x} if x else {}
            except ValueError:
                pass
        if k == "DeclRefExpr":
            if e.get("declId") in env:
                v = env[e["declId"]]
                return v.copy() if isinstance(v, Vec) else v
            if "cv" in e:
                x = float(e["cv"])
                return {"": x} if x else {}
            if e.get("dk") == "EnumConstant" or e.get("name") in ("INTEGER", "CONTINUOUS"):
                return {e.get("name"): 1.0}
            return {e.get("name") or "?": 1.0}
        if k == "UnaryOperator" and e.get("op") in ("-", "+"):
            a = self.value(kids(e)[0], env)
            if not isinstance(a, dict):
                raise Unsupported("unary on non-scalar")
            return aff_scale(a, -1.0) if e["op"] == "-" else a
        if k == "UnaryOperator" and e.get("op") == "!":
            return {"!" + self.cond_txt(kids(e)[0]): 1.0}
        if k == "BinaryOperator" and e.get("op") in ("+", "-"):
            a, b = self.value(kids(e)[0], env), self.value(kids(e)[1], env)
            if isinstance(a, dict) and isinstance(b, dict):
                return aff_add(a, b, 1.0 if e["op"] == "+" else -1.0)
            raise Unsupported("arithmetic on non-scalars")
        if k == "BinaryOperator" and e.get("op") in ("*", "/"):
            a, b = self.value(kids(e)[0], env), self.value(kids(e)[1], env)
            if isinstance(a, dict) and isinstance(b, dict):
                ca, cb = aff_const(a), aff_const(b)
                if e["op"] == "*":
                    if ca is not None:
                        return aff_scale(b, ca)
                    if cb is not None:
                        return aff_scale(a, cb)
                    return {"(%s)*(%s)" % (aff_txt(a), aff_txt(b)): 1.0}
                if cb is not None and cb != 0:
                    return aff_scale(a, 1.0 / cb)
                return {"(%s)/(%s)" % (aff_txt(a), aff_txt(b)): 1.0}
            raise Unsupported("arithmetic on non-scalars")
        if k == "BinaryOperator" and e.get("op") in ("<", "<=", ">", ">=", "==", "!=", "&&", "||"):
            return {"[" + self.cond_txt(e) + "]": 1.0}
        if k == "InitListExpr":
            vals = [self.value(x, env) for x in kids(e)]
            if len(vals) == 1 and isinstance(vals[0], Vec) and ("std::array" in (e.get("ct") or "") or "[" in (e.get("ct") or "")):
                return vals[0]
            return Vec([("one", v) for v in vals])
        if k == "CXXOperatorCallExpr" and e.get("op") == "[]":
            base, idx = call_args(e)
            b = self.value(base, env)
            ix = self.value(idx, env)
            return self.index(b, ix, base)
        if k == "ArraySubscriptExpr":
            b = self.value(kids(e)[0], env)
            ix = self.value(kids(e)[1], env)
            return self.index(b, ix, kids(e)[0])
        if k in ("CXXConstructExpr", "CXXTemporaryObjectExpr"):
            return self.construct(e, env)
        if k in ("CXXMemberCallExpr", "CallExpr"):
            return self.call(e, env)
        if k == "ConditionalOperator":
            c0 = cv(kids(e)[0])
            if c0 is not None:
                return self.value(kids(e)[1] if c0 else kids(e)[2], env)
            return {"(%s?%s:%s)" % (self.cond_txt(kids(e)[0]), self.show(self.value(kids(e)[1], env)), self.show(self.value(kids(e)[2], env))): 1.0}
        if k == "MemberExpr":
            return {self.cond_txt(e): 1.0}
        if k == "CXXDefaultArgExpr":
            return {"<default>": 1.0}
        if k == "CXXThisExpr":
            return {"this": 1.0}
        raise Unsupported("expression %s: %s" % (k, render(e)[:50]))

    def index(self, b, ix, base_node):
        if isinstance(b, Vec):
            c = aff_const(ix) if isinstance(ix, dict) else None
            if c is not None:
                pos = int(c)
                if pos < len(b.segs) and all(s[0] == "one" for s in b.segs[:pos + 1]):
                    return b.segs[pos][1]
                if len(b.segs) == 1 and b.segs[0][0] == "rep":
                    return element(b.segs[0][2], str(pos))
                raise Unsupported("index %d into %s" % (pos, b.norm()))
            reps = [s for s in b.segs if s[0] == "rep"]
            if len(reps) == 1:
                return generic(reps[0][2])
            raise Unsupported("generic index into %s" % (b.norm(),))
        if isinstance(b, dict):
            nm = aff_txt(b)
            c = aff_const(ix) if isinstance(ix, dict) else None
            return {"%s[%s]" % (nm, ("%d" % c) if c is not None else aff_txt(ix)): 1.0}
        raise Unsupported("indexing %s" % (b,))

    def call(self, e, env):
        nm = (e.get("callee") or "").split("::")[-1]
        args = call_args(e)
        if nm in ("AddConstraint", "AddConstraint_AS_ROOT") and args:
            d = self.value(args[0], env)
            self.emitted.append((list(self.cur[0]), self.cur[1], d))
            return {"index_of_added_constraint": 1.0}
        if nm == "GetArguments":
            return Vec([("rep", {"n": 1.0}, {"args[*]": 1.0})])
        if nm == "GetParameters":
            return Vec([("rep", {"np": 1.0}, {"params[*]": 1.0})])
        if nm == "GetResultVar":
            return {"res": 1.0}
        if nm == "size":
            o = self.value(call_object(e), env)
            if isinstance(o, Vec):
                return o.size()
            raise Unsupported("size() of non-vector")
        if nm in ("AddVar",):
            return {self.fresh("var[%s]" % ",".join(str(self.show(self.value(a, env))) for a in args)): 1.0}
        if nm == "AddVars_returnIds":
            a = [self.value(x, env) for x in args]
            return Vec([("rep", a[0], {self.fresh("vars[%s]" % ",".join(str(self.show(x)) for x in a[1:])) + "[*]": 1.0})])
        if nm in ("AssignResultVar2Args", "AssignResult2Args"):
            d = self.value(args[0], env)
            return {"result(%s)" % (self.show_con(d),): 1.0}
        if nm in ("fixed_value", "lb", "ub", "MakeComplementVar", "MakeFixedVar", "is_fixed", "fabs", "floor", "ceil", "round", "isfinite", "bigMDefault", "ComparisonEps",
                  "lb_array", "ub_array", "Infty", "MinusInfty", "is_binary_var", "is_var_integer", "constant_term", "Convert2Var", "rhs", "get_binary_var", "get_binary_value",
                  "GetBody", "get_constraint", "GetConstraint", "GetExpression", "GetVariable", "GetContext", "GetAffineExpr", "empty", "front", "back", "begin", "end",
                  "is_integer_value", "var_type", "GetModel", "ub_min_array", "lb_max_array", "common_type"):
            a = [self.show(self.value(x, env)) for x in args]
            o = ""
            if e["k"] == "CXXMemberCallExpr":
                ob = strip(call_object(e))
                if ob["k"] not in ("CXXThisExpr",) and "GetMC" not in render(ob):
                    ov = self.value(ob, env)
                    o = (str(self.show(ov)) + ".") if not isinstance(ov, Vec) or True else ""
            return {"%s%s(%s)" % (o, nm, ",".join(str(x) for x in a)): 1.0}
        if nm == "GetMC":
            return {"MC": 1.0}
        if nm in ("max", "min", "pow") and len(args) == 2:
            a = [str(self.show(self.value(x, env))) for x in args]
            if nm != "pow":
                a = sorted(a)
            return {"%s(%s,%s)" % (nm, a[0], a[1]): 1.0}
        if nm.startswith("operator ") and e["k"] == "CXXMemberCallExpr":
            return self.value(call_object(e), env)
        if nm in ("move", "forward") and len(args) == 1:
            return self.value(args[0], env)
        # opaque: marked with '?', a descriptor containing it is never judged
        return {"?%s(%s)" % (nm, ",".join(str(self.show(self.value(x, env))) for x in args)): 1.0}

    def show_con(self, d):
        return repr(d)

    def construct(self, e, env):
        ct = (e.get("ct") or "")
        a = [x for x in kids(e) if x is not None and strip(x)["k"] != "CXXDefaultArgExpr"]
        cal = (e.get("callee") or "")
        if ct.startswith("std::vector<") or ct.startswith("std::array<") or ct.startswith("const std::vector<") or ct.startswith("const std::array<"):
            if len(a) == 1:
                v = self.value(a[0], env)
                if isinstance(v, Vec):
                    return v
                if isinstance(v, dict):
                    return Vec([("rep", v, {})])
                raise Unsupported("vector from %s" % render(a[0])[:40])
            if len(a) == 2:
                # the iterator-range form vector(c.begin(), c.end()): a copy of c
                b0, e0 = strip(a[0]), strip(a[1])
                while b0["k"] in ("CXXConstructExpr", "ImplicitCastExpr", "MaterializeTemporaryExpr") and kids(b0):
                    b0 = strip(kids(b0)[0])
                while e0["k"] in ("CXXConstructExpr", "ImplicitCastExpr", "MaterializeTemporaryExpr") and kids(e0):
                    e0 = strip(kids(e0)[0])
                if b0["k"] == "CXXMemberCallExpr" and e0["k"] == "CXXMemberCallExpr" and (b0.get("callee") or "").split("::")[-1] in ("begin", "cbegin") and \
                        (e0.get("callee") or "").split("::")[-1] in ("end", "cend") and render(call_object(b0)) == render(call_object(e0)):
                    src = self.value(call_object(b0), env)
                    if isinstance(src, Vec):
                        return src.copy()
                n = self.value(a[0], env)
                el = self.value(a[1], env)
                if isinstance(n, dict) and not isinstance(el, Vec):
                    return Vec([("rep", n, el)])
            if not a:
                return Vec([])
            raise Unsupported("vector constructor with %d arguments" % len(a))
        m = re.search(r"mp::IndicatorConstraint<", ct)
        if m and "IndicatorConstraint::IndicatorConstraint" in cal:
            if len(a) == 1:
                return self.value(a[0], env)
            b, val, con = a[0], a[1], a[2]
            return ("ind", self.show(self.value(b, env)), self.show(self.value(val, env)), self.value(con, env))
        if "mp::AlgebraicConstraint<" in ct and "AlgebraicConstraint::AlgebraicConstraint" in cal:
            if len(a) == 1:
                return self.value(a[0], env)
            mk = re.search(r"AlgConRhs<(-?[0-9]+)>|AlgConRange", ct)
            sense = mk.group(0)
            body = self.value(a[0], env)
            rr = self.value(a[1], env)
            return ("con", sense, body, self.show(rr))
        if ct.replace("const ", "") in ("mp::LinTerms",) and "LinTerms::LinTerms" in cal:
            if len(a) == 1:
                return self.value(a[0], env)
            if len(a) == 2:
                cf, vs = self.value(a[0], env), self.value(a[1], env)
                if isinstance(cf, Vec) and isinstance(vs, Vec):
                    return ("lin", cf.norm(), vs.norm())
            if not a:
                return ("lin", (), ())
            raise Unsupported("LinTerms constructor")
        if "mp::QuadTerms" == ct.replace("const ", "") and len(a) == 3:
            v = [self.value(x, env) for x in a]
            return ("quad",) + tuple(x.norm() if isinstance(x, Vec) else self.show(x) for x in v)
        if "mp::QuadAndLinTerms" == ct.replace("const ", "") and len(a) == 2:
            return ("qlt", self.value(a[0], env), self.value(a[1], env))
        if re.search(r"mp::AlgConRhs<|mp::AlgConRange", ct):
            v = [self.show(self.value(x, env)) for x in a]
            return v[0] if len(v) == 1 else tuple(v)
        if "CustomFunctionalConstraint" in ct or "FunctionalConstraint" in ct or "ConditionalConstraint" in ct:
            mid = re.search(r"mp::([A-Za-z_0-9]+)ConstraintId", ct)
            nm = (mid.group(1) if mid else re.sub(r"mp::", "", ct)[:60])
            return ("fc", nm) + tuple(self.show(self.value(x, env)) if not isinstance(self.value(x, env), tuple) else self.value(x, env) for x in a)
        if "mp::AlgebraicExpression<" in ct:
            return ("expr",) + tuple(self.value(x, env) if isinstance(self.value(x, env), tuple) else self.show(self.value(x, env)) for x in a)
        if len(a) == 1:
            return self.value(a[0], env)
        if not a:
            return {"%s()" % re.sub(r"mp::|std::", "", ct)[:30]: 1.0}
        raise Unsupported("constructor of %s" % ct[:60])


def merge_vecs(vs):
    """element-wise union of vectors with the same segment structure"""
    vs = [Vec(v_.canon_segs()) for v_ in vs]
    base = vs[0]
    out = []
    for j, sg in enumerate(base.segs):
        alts = []
        for v_ in vs:
            if len(v_.segs) != len(base.segs) or v_.segs[j][0] != sg[0]:
                raise Unsupported("paths build vectors of different shape")
            el_ = generic(v_.segs[j][-1]) if sg[0] == "rep" else v_.segs[j][-1]      # inside a merged segment the position is the generic i
            t = aff_txt(el_) if isinstance(el_, dict) else str(el_)
            if t not in alts:
                alts.append(t)
        el = sg[-1] if len(alts) == 1 else {"either(%s)" % " | ".join(sorted(alts)): 1.0}
        out.append((sg[0], sg[1], el) if sg[0] == "rep" else ("one", el))
    return Vec(out)


def generic(el):
    """the generic element of a repeated segment: args[*] -> args[i]"""
    if isinstance(el, dict):
        return {t.replace("[*]", "[i]"): v for t, v in el.items()}
    return el


def element(el, idx):
    if isinstance(el, dict):
        return {t.replace("[*]", "[%s]" % idx): v for t, v in el.items()}
    return el
