"""Compilation units and flags.

Flags are the production flags of the CMake build (read once from
`ninja -t compdb`, see DESIGN 2.2) frozen here so that a check does not depend
on a configured build directory.  -std is stated explicitly.
"""
import os

REPO = os.environ.get("MPSA_REPO", "/repo")
VERIF = os.path.dirname(os.path.dirname(os.path.abspath(__file__)))
RES = "/usr/lib/llvm-14/lib/clang/14.0.6"

COMMON = ["-std=gnu++17", "-resource-dir", RES, "-w", "-ferror-limit=0"]
MPDEFS = ["-DMP_DATE=20240320", '-DMP_SYSINFO="Linux x86_64"', "-DMP_USE_ATOMIC",
          "-DMP_USE_HASH", "-DMP_USE_UNIQUE_PTR"]


def flags(kind, repo=None, ndebug=True):
    r = repo or REPO
    nd = ["-DNDEBUG"] if ndebug else ["-UNDEBUG"]
    if kind == "mp":          # libmp sources
        return COMMON + nd + MPDEFS + ["-I%s/include" % r, "-I%s/src" % r]
    if kind == "fmt":         # format.cc / posix.cc / gen-expr-info.cc
        return COMMON + nd + ["-I%s/include" % r]
    if kind == "nlw2":        # nl-writer2 library
        return COMMON + nd + ["-I%s/include" % r, "-I%s/nl-writer2/include" % r]
    if kind == "test":
        return COMMON + nd + MPDEFS + ["-DFMT_USE_FILE_DESCRIPTORS",
                                       '-DMP_TEST_DATA_DIR="%s/test/data"' % r,
                                       "-I%s/include" % r, "-I%s/thirdparty" % r,
                                       "-I%s/src" % r]
    if kind == "visitor":     # solvers/visitor: not in the build, see DESIGN 2.2
        return COMMON + nd + MPDEFS + ["-I%s/include" % r, "-I%s/src" % r,
                                       "-I%s/solvers/visitor" % r, "-I%s/solvers" % r]
    if kind == "gsl":         # src/gsl/amplgsl.cc with the stub funcadd.h
        return COMMON + nd + ["-I%s/tool/stubs" % VERIF, "-I%s/include" % r,
                              "-I%s/src" % r, "-I%s/src/gsl" % r]
    if kind == "bare":        # only what the caller adds (stubs that pick their own include order)
        return COMMON + nd
    raise KeyError(kind)


# unit (path relative to the repo) -> flag kind
UNITS = {
    "src/expr.cc": "mp", "src/nl-reader.cc": "mp", "src/option.cc": "mp",
    "src/os.cc": "mp", "src/problem.cc": "mp", "src/rstparser.cc": "mp",
    "src/sol.cc": "mp", "src/solver.cc": "mp", "src/sp.cc": "mp",
    "src/std_constr.cc": "mp", "src/utils_clock.cc": "mp",
    "src/utils_file.cc": "mp", "src/utils_string.cc": "mp",
    "src/mp/flat/encodings.cpp": "mp", "src/mp/flat/piecewise_linear.cpp": "mp",
    "src/format.cc": "fmt", "src/posix.cc": "fmt", "src/gen-expr-info.cc": "mp",
    "src/expr-info.cc": "mp",
    "nl-writer2/src/nl-writer2.cc": "nlw2", "nl-writer2/src/nl-utils.cc": "nlw2",
    "nl-writer2/src/dtoa.cc": "nlw2", "nl-writer2/src/nl-solver.cc": "nlw2",
    "nl-writer2/src/nl-model-c.cc": "nlw2", "nl-writer2/src/nl-solver-c.cc": "nlw2",
    "nl-writer2/examples/cpp/easyAPI_1_MIQP/nlsol_ex_easy_api.cc": "nlw2",
    "nl-writer2/examples/cpp/fullAPI_1/nlsol_ex.cc": "nlw2",
    "examples/nl-reader-example.cc": "mp",
    "test/util-test.cc": "test", "test/assert-test.cc": "test",
    "test/clock-test.cc": "test", "test/common-test.cc": "test",
    "test/error-test.cc": "test", "test/expr-test.cc": "test",
    "test/expr-visitor-test.cc": "test", "test/expr-writer-test.cc": "test",
    "test/nl-reader-test.cc": "test", "test/option-test.cc": "test",
    "test/os-test.cc": "test", "test/problem-builder-test.cc": "test",
    "test/problem-test.cc": "test", "test/rstparser-test.cc": "test",
    "test/safeint-test.cc": "test", "test/solver-test.cc": "test",
    "test/sp-test.cc": "test", "test/suffix-test.cc": "test",
    "test/converter-flat-test.cpp": "test", "test/converter-mip-test.cpp": "test",
    "solvers/visitor/main.cc": "visitor",
    "solvers/visitor/visitorbackend.cc": "visitor",
    "solvers/visitor/visitormodelapi.cc": "visitor",
    "solvers/visitor/visitor-modelapi-connect.cc": "visitor",
    "solvers/visitor/model-mgr-with-std-pb.cc": "visitor",
    "solvers/visitor/visitorcommon.cc": "visitor",
    "src/gsl/amplgsl.cc": "gsl",
}

# directories whose content decides the facts (cache key)
SOURCE_DIRS = ["include", "src", "nl-writer2", "solvers/visitor", "test", "examples",
               "thirdparty/gmock", "thirdparty/gtest"]
