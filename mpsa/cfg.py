"""AST and CFG helpers over the facts exported by tool/mpx."""
from collections import defaultdict, deque

TRANSPARENT = {"ParenExpr", "ImplicitCastExpr", "ExprWithCleanups",
               "MaterializeTemporaryExpr", "CXXBindTemporaryExpr", "ConstantExpr",
               "SubstNonTypeTemplateParmExpr", "FullExpr"}


def kids(n):
    return [c for c in n.get("c", []) if c is not None]


def strip(n, casts=True):
    """Skip parentheses, implicit casts, temporaries.  With casts=False implicit
    casts are kept (needed where the cast kind matters)."""
    while n is not None and n["k"] in TRANSPARENT:
        if not casts and n["k"] == "ImplicitCastExpr":
            break
        ks = kids(n)
        if len(ks) != 1:
            break
        n = ks[0]
    return n


def walk(n):
    """Pre-order traversal of a node and its descendants."""
    st = [n]
    while st:
        x = st.pop()
        if x is None:
            continue
        yield x
        st.extend(reversed(kids(x)))


def cv(n):
    """Constant value (int) if clang folded the expression."""
    n0 = n
    while n0 is not None:
        if "cv" in n0:
            try:
                return int(n0["cv"])
            except ValueError:
                return None
        if n0["k"] in TRANSPARENT and len(kids(n0)) == 1:
            n0 = kids(n0)[0]
        else:
            return None
    return None


def is_call(n, qn=None):
    if n is None or n["k"] not in ("CallExpr", "CXXMemberCallExpr", "CXXOperatorCallExpr"):
        return False
    return qn is None or n.get("callee") == qn


def callee_name(n):
    return n.get("callee", "")


def call_args(n):
    """Arguments of a call (without the callee expression / object)."""
    ks = kids(n)
    if n["k"] == "CXXConstructExpr" or n["k"] == "CXXTemporaryObjectExpr":
        return ks
    if n["k"] == "CXXOperatorCallExpr":
        return ks[1:]
    return ks[1:]


def call_object(n):
    """Object expression of a member call (None for free calls)."""
    if n["k"] != "CXXMemberCallExpr":
        return None
    me = strip(kids(n)[0])
    if me is not None and me["k"] == "MemberExpr" and kids(me):
        return kids(me)[0]
    return None


import re
import os as _os
RENDER_EXPAND = _os.environ.get("MPSA_RENDER_EXPAND", "1") in ("1", "all")
RENDER_EXPAND_ALL = _os.environ.get("MPSA_RENDER_EXPAND", "1") == "all"
RENDER_CANON = _os.environ.get("MPSA_RENDER_CANON", "1") == "1"
_CANON_DEFAULT = RENDER_CANON
# rules whose tables were frozen against the source orientation of comparisons (`b > a`, `0 == x`); every other rule sees
# relational operators in canonical form (`a < b`, operands of == / != in lexicographic order)
RAW_CANON_RULES = {"C01.T2", "C06.K1", "C05.S1", "C07.E2", "C07.G1", "C01.D1", "C01.K1", "C01.L1", "C01.M1", "C01.P2", "C01.X1", "C01.K2", "C01.H1", "C01.H2", "C02.G2", "C02.R0", "C03.W2", "C04.E1", "C05.G1",
                   "C06.B1", "C06.G1", "C06.R1", "C09.M1", "C09.P4", "C12.F1", "C12.R1", "C13.G1", "C14.B2", "C14.G1", "C19.G1", "C19.S1"}
_RENDER_DEFAULT = RENDER_EXPAND
# rules whose tables were frozen against the unexpanded text (locals by name); everything else sees stable locals expanded
RAW_RENDER_RULES = {"C01.T2", "C06.K1", "C01.X1", "C06.G1", "C06.R1", "C01.H2", "C01.K1", "C01.K2", "C01.L1", "C01.P2", "C04.T1", "C05.T2", "C06.B1", "C07.H1",
                    "C10.U1", "C11.V1", "C13.D1", "C19.S1", "C20.P1", "C20.P3"}


def set_rule(rid):
    """called when a rule object is created: selects the rendering mode of the code that follows"""
    global RENDER_EXPAND, RENDER_CANON
    RENDER_EXPAND = _RENDER_DEFAULT and rid not in RAW_RENDER_RULES
    RENDER_CANON = _CANON_DEFAULT and rid not in RAW_CANON_RULES


def render(n, depth=0):
    """Compact pseudo-source of an expression for diagnostics."""
    if n is None:
        return "<null>"
    if depth > 12:
        return "..."
    k = n["k"]
    ks = kids(n)
    r = lambda x: render(x, depth + 1)
    if k in TRANSPARENT and len(ks) == 1:
        return r(ks[0])
    if k == "DeclRefExpr":
        if RENDER_EXPAND and n.get("_f") is not None and depth < 10:
            ini = _stable_local_inits(n["_f"], RENDER_EXPAND_ALL).get(n.get("declId"))
            if ini is not None:
                return render(ini, depth + 1)
        return n.get("name", "?")
    if k == "MemberExpr":
        b = r(ks[0]) if ks else "this"
        if b == "this":
            return n.get("name", "?")
        return b + ("->" if n.get("arrow") else ".") + n.get("name", "?")
    if k == "CXXThisExpr":
        return "this"
    if k in ("IntegerLiteral", "FloatingLiteral", "CXXBoolLiteralExpr"):
        return str(n.get("v"))
    if k == "CharacterLiteral":
        v = int(n.get("v", 0))
        return repr(chr(v)) if 32 <= v < 127 else "'\\x%02x'" % v
    if k == "StringLiteral":
        return '"%s"' % str(n.get("v", "")).replace("\n", "\\n")
    if k in ("BinaryOperator", "CompoundAssignOperator") and len(ks) == 2:
        if RENDER_CANON and k == "BinaryOperator" and n.get("op") in (">", ">=", "==", "!="):
            a_, b_ = r(ks[0]), r(ks[1])
            if n["op"] == ">":
                return "%s < %s" % (b_, a_)
            if n["op"] == ">=":
                return "%s <= %s" % (b_, a_)
            x_, y_ = sorted([a_, b_])
            return "%s %s %s" % (x_, n["op"], y_)
        return "%s %s %s" % (r(ks[0]), n.get("op"), r(ks[1]))
    if k == "UnaryOperator" and ks:
        return (r(ks[0]) + n.get("op", "")) if n.get("postfix") else (n.get("op", "") + r(ks[0]))
    if k == "CXXOperatorCallExpr":
        a = ks[1:]
        op = n.get("op", "?")
        if op == "()" and a:
            return "%s(%s)" % (r(a[0]), ", ".join(r(x) for x in a[1:]))
        if op == "[]" and len(a) == 2:
            return "%s[%s]" % (r(a[0]), r(a[1]))
        if len(a) == 2:
            return "%s %s %s" % (r(a[0]), op, r(a[1]))
        if len(a) == 1:
            return op + r(a[0])
    if k in ("CallExpr", "CXXMemberCallExpr"):
        f = r(ks[0]) if ks else "?"
        return "%s(%s)" % (f, ", ".join(r(x) for x in ks[1:]))
    if k in ("CXXConstructExpr", "CXXTemporaryObjectExpr"):
        if len(ks) == 1:
            return r(ks[0])
        return "%s(%s)" % (n.get("t", "?"), ", ".join(r(x) for x in ks))
    if k == "ArraySubscriptExpr" and len(ks) == 2:
        return "%s[%s]" % (r(ks[0]), r(ks[1]))
    if k == "ConditionalOperator" and len(ks) == 3:
        return "%s ? %s : %s" % (r(ks[0]), r(ks[1]), r(ks[2]))
    if k in ("CStyleCastExpr", "CXXStaticCastExpr", "CXXFunctionalCastExpr",
             "CXXReinterpretCastExpr", "CXXConstCastExpr") and ks:
        return "(%s)%s" % (n.get("castT", n.get("t", "?")), r(ks[0]))
    if k == "ReturnStmt":
        return "return " + (r(ks[0]) if ks else "")
    if k == "VarDecl":
        return "%s %s%s" % (n.get("t"), n.get("name"), (" = " + r(ks[0])) if ks else "")
    if k == "DeclStmt":
        return "; ".join(r(x) for x in ks)
    if k == "CXXThrowExpr":
        return "throw " + (r(ks[0]) if ks else "")
    if k == "UnaryExprOrTypeTraitExpr":
        return "%s(%s)" % (n.get("op"), n.get("argT") or (r(ks[0]) if ks else ""))
    if k == "CXXDefaultArgExpr":
        return "<default>"
    return "%s(%s)" % (k, ", ".join(r(x) for x in ks[:4]))


def switch_sections(sw):
    """For a SwitchStmt: {case value or 'default': [statements executed from that
    label up to the first break/continue/goto/return]} (fall-through followed)."""
    body = kids(sw)[-1]
    flat = []          # (labels or None, stmt)
    def add(stmt, labels):
        while stmt is not None and stmt["k"] in ("CaseStmt", "DefaultStmt"):
            if stmt["k"] == "CaseStmt":
                labels = labels + [cv(kids(stmt)[0])]
            else:
                labels = labels + ["default"]
            stmt = kids(stmt)[-1] if kids(stmt) else None
        flat.append((labels, stmt))
    for st in kids(body) if body["k"] == "CompoundStmt" else [body]:
        add(st, [])
    out = {}
    for i, (labels, stmt) in enumerate(flat):
        if not labels:
            continue
        seq = []
        j = i
        while j < len(flat):
            st = flat[j][1]
            if st is not None:
                seq.append(st)
                if st["k"] in ("BreakStmt", "ContinueStmt", "GotoStmt", "ReturnStmt"):
                    break
            j += 1
        for l in labels:
            out[l] = seq
    return out


def where(n):
    return n.get("l", "?") if n else "?"


def short_loc(l):
    """file:line (column dropped, repo prefix dropped) for messages."""
    if not l:
        return "?"
    p = l.split(":")
    f = p[0]
    for pre in ("/repo/",):
        if f.startswith(pre):
            f = f[len(pre):]
    return "%s:%s" % (f, p[1]) if len(p) > 1 else f


class Func:
    """One exported function: indexed AST + CFG."""

    def __init__(self, d, unit=None):
        self.d = d
        self.unit = unit
        self.id = d["id"]
        self.qn = d["qn"]
        self.full = d.get("full", d["qn"])
        self.name = d.get("name")
        self.loc = d.get("l")
        self.rec = d.get("rec")
        self.params = d.get("params", [])
        self.nodes = {}
        self.parent = {}
        self.roots = list(d.get("inits", [])) + [b for b in d.get("body", []) if b]
        for r in self.roots:
            self._index(r, None)
        self.cfg = CFG(d["cfg"], self) if "cfg" in d else None

    def _index(self, n, p):
        st = [(n, p)]
        while st:
            x, par = st.pop()
            if x is None:
                continue
            self.nodes[x["i"]] = x
            if x["k"] == "DeclRefExpr":
                x["_f"] = self
            if par is not None:
                self.parent[x["i"]] = par
            for c in x.get("c", []):
                st.append((c, x))

    @property
    def body(self):
        b = self.d.get("body", [])
        return b[0] if b else None

    def walk(self):
        for r in self.roots:
            yield from walk(r)

    def find(self, pred):
        return [n for n in self.walk() if pred(n)]

    def calls(self, qn=None, name=None):
        out = []
        for n in self.walk():
            if n["k"] in ("CallExpr", "CXXMemberCallExpr", "CXXOperatorCallExpr",
                          "CXXConstructExpr", "CXXTemporaryObjectExpr"):
                c = n.get("callee")
                if c is None:
                    continue
                if qn is not None and c != qn:
                    continue
                if name is not None and c.split("::")[-1] != name:
                    continue
                out.append(n)
        return out

    def ancestors(self, n):
        i = n["i"]
        while i in self.parent:
            p = self.parent[i]
            yield p
            i = p["i"]

    def enclosing(self, n, kinds):
        for a in self.ancestors(n):
            if a["k"] in kinds:
                return a
        return None

    def is_dependent(self):
        return bool(self.d.get("dependent"))

    def __repr__(self):
        return "<Func %s>" % self.full


class CFG:
    def __init__(self, d, func):
        self.func = func
        self.entry = d["entry"]
        self.exit = d["exit"]
        self.blocks = {b["id"]: b for b in d["blocks"]}
        self.succ = {}
        self.pred = defaultdict(list)
        for b in d["blocks"]:
            ss = [s for s in b["succ"]]
            # `if constexpr`: the condition is a ConstantExpr; the discarded branch is not a path
            c = func.nodes.get(b.get("cond", -1)) if b.get("cond") is not None else None
            t = func.nodes.get(b.get("term", -1)) if b.get("term") is not None else None
            if c is not None and t is not None and t["k"] == "IfStmt" and c["k"] == "ConstantExpr" \
                    and len(ss) == 2 and cv(c) is not None:
                ss[1 if cv(c) else 0] = None
            self.succ[b["id"]] = ss
            for s in ss:
                if s is not None:
                    self.pred[s].append(b["id"])
        self.pos = {}
        for b in d["blocks"]:
            for idx, e in enumerate(b["el"]):
                if e >= 0 and e not in self.pos:
                    self.pos[e] = (b["id"], idx)
        self._dom = None
        self._pdom = None
        self._reach = {}

    def cut_noreturn(self, is_noreturn):
        """Treat elements for which is_noreturn(node) holds as ending the path:
        the block is split logically - everything after the element in the block
        and the block's successors become unreachable from it.  Implemented by
        removing the successor edges of such blocks (sound for must-analyses when
        the element is the last effectful element of its block, which holds for
        the `if (c) ReportError(...)` idiom)."""
        changed = False
        for b in self.blocks.values():
            for e in b["el"]:
                n = self.func.nodes.get(e)
                if n is not None and is_noreturn(n):
                    if self.succ[b["id"]]:
                        self.succ[b["id"]] = []
                        changed = True
                    break
        if changed:
            self.pred = defaultdict(list)
            for b, ss in self.succ.items():
                for s_ in ss:
                    if s_ is not None:
                        self.pred[s_].append(b)
            self._dom = self._pdom = None
            self._reach = {}
            for a in ("_mf", "_mfk"):
                if hasattr(self, a):
                    delattr(self, a)
        return changed

    # -- basic graph ------------------------------------------------------
    def succs(self, b):
        return [s for s in self.succ[b] if s is not None]

    def reachable_from(self, b):
        if b in self._reach:
            return self._reach[b]
        seen = set()
        dq = deque([b])
        while dq:
            x = dq.popleft()
            for s in self.succs(x):
                if s not in seen:
                    seen.add(s)
                    dq.append(s)
        self._reach[b] = seen
        return seen

    def live_blocks(self):
        return {self.entry} | self.reachable_from(self.entry)

    def _dominators(self, entry, succ_of, pred_of):
        nodes = set(self.blocks)
        # restrict to nodes reachable from entry in the given direction
        seen = {entry}
        dq = deque([entry])
        while dq:
            x = dq.popleft()
            for s in succ_of(x):
                if s not in seen:
                    seen.add(s)
                    dq.append(s)
        dom = {n: set(seen) for n in seen}
        dom[entry] = {entry}
        changed = True
        order = list(seen)
        while changed:
            changed = False
            for n in order:
                if n == entry:
                    continue
                ps = [p for p in pred_of(n) if p in seen]
                if not ps:
                    new = {n}
                else:
                    new = set.intersection(*(dom[p] for p in ps)) | {n}
                if new != dom[n]:
                    dom[n] = new
                    changed = True
        return dom

    @property
    def dom(self):
        if self._dom is None:
            self._dom = self._dominators(self.entry, self.succs, lambda n: self.pred[n])
        return self._dom

    @property
    def pdom(self):
        if self._pdom is None:
            self._pdom = self._dominators(self.exit, lambda n: self.pred[n], self.succs)
        return self._pdom

    # -- statement-level queries --------------------------------------------
    def position(self, node):
        """(block, index) of the CFG element of `node`; for nodes that are not
        elements themselves, the position of the nearest enclosing element."""
        i = node["i"] if isinstance(node, dict) else node
        f = self.func
        while i not in self.pos:
            if i not in f.parent:
                return None
            i = f.parent[i]["i"]
        return self.pos[i]

    def dominates(self, a, b):
        """every path from entry to b passes through a (a, b nodes)."""
        pa, pb = self.position(a), self.position(b)
        if pa is None or pb is None:
            return False
        if pa[0] == pb[0]:
            return pa[1] <= pb[1]
        return pa[0] in self.dom.get(pb[0], set())

    def postdominates(self, a, b):
        """every path from b to the normal exit passes through a."""
        pa, pb = self.position(a), self.position(b)
        if pa is None or pb is None:
            return False
        if pa[0] == pb[0]:
            return pa[1] >= pb[1]
        return pa[0] in self.pdom.get(pb[0], set())

    def before(self, a, b):
        """a may execute before b on some path."""
        pa, pb = self.position(a), self.position(b)
        if pa is None or pb is None:
            return False
        if pa[0] == pb[0] and pa[1] < pb[1]:
            return True
        return pb[0] in self.reachable_from(pa[0])

    def path_avoiding(self, start, targets, avoid, from_entry=False):
        """Is there a path that starts right after element position `start`
        (or at function entry if from_entry) and reaches an element whose node
        id is in `targets` (or the exit block if targets == 'exit') without
        executing an element whose id is in `avoid`?  Returns a witness list of
        block ids or None."""
        avoid = set(avoid)
        tset = set(targets) if targets != "exit" else None

        def scan(bid, i0):
            els = self.blocks[bid]["el"]
            for e in els[i0:]:
                if e in avoid:
                    return "stop"
                if tset is not None and e in tset:
                    return "hit"
            return "through"

        if from_entry:
            b0, i0 = self.entry, 0
        else:
            b0, i0 = start[0], start[1] + 1
        r = scan(b0, i0)
        if r == "hit":
            return [b0]
        if r == "stop":
            return None
        if tset is None and b0 == self.exit:
            return [b0]
        seen = set()
        dq = deque([(s, [b0, s]) for s in self.succs(b0)])
        while dq:
            b, path = dq.popleft()
            if b in seen:
                continue
            seen.add(b)
            if tset is None and b == self.exit:
                return path
            r = scan(b, 0)
            if r == "hit":
                return path
            if r == "stop":
                continue
            for s in self.succs(b):
                if s not in seen:
                    dq.append((s, path + [s]))
        return None

    # -- branch facts ---------------------------------------------------------
    def edge_facts(self, b):
        """For block b: list parallel to succ of sets of facts that hold on the
        edge.  A fact is (cond_node_id, True/False) for two-way branches and
        (cond_node_id, ('case', value|'default')) for switch edges."""
        blk = self.blocks[b]
        ss = self.succ[b]
        out = [set() for _ in ss]
        if "cond" not in blk or blk.get("cond", -1) < 0:
            return out
        c = blk["cond"]
        term = self.func.nodes.get(blk.get("term", -1))
        if term is not None and term["k"] == "SwitchStmt":
            for i, s in enumerate(ss):
                if s is None:
                    continue
                lab = self.func.nodes.get(self.blocks[s].get("label", -1))
                if lab is not None and lab["k"] == "CaseStmt":
                    v = cv(kids(lab)[0]) if kids(lab) else None
                    out[i].add((c, ("case", v)))
                else:
                    out[i].add((c, ("case", "default")))
            return out
        if len(ss) == 2:
            out[0].add((c, True))
            out[1].add((c, False))
            # short-circuit: the value of the condition decides enclosing && / || nodes
            f = self.func
            for pol, idx in ((True, 0), (False, 1)):
                cur = f.nodes.get(c)
                # the condition node may be wrapped in casts/parens: climb transparently
                while cur is not None:
                    par = f.parent.get(cur["i"])
                    while par is not None and par["k"] in TRANSPARENT:
                        cur, par = par, f.parent.get(par["i"])
                    if par is None or par["k"] != "BinaryOperator" or par.get("op") not in ("&&", "||"):
                        break
                    decides = (par["op"] == "&&" and pol is False) or (par["op"] == "||" and pol is True)
                    if not decides:
                        break
                    out[idx].add((par["i"], pol))
                    cur = par
        return out

    def must_facts(self):
        """Forward must-analysis: facts_in[b] = set of branch facts that hold on
        every path from entry to b."""
        live = self.live_blocks()
        TOP = None
        fin = {b: TOP for b in live}
        fin[self.entry] = set()
        work = deque([self.entry])
        while work:
            b = work.popleft()
            cur = fin[b]
            if cur is TOP:
                continue
            efs = self.edge_facts(b)
            for i, s in enumerate(self.succ[b]):
                if s is None or s not in live:
                    continue
                new = cur | efs[i]
                old = fin[s]
                if old is TOP:
                    fin[s] = set(new)
                    work.append(s)
                else:
                    inter = old & new
                    if inter != old:
                        fin[s] = inter
                        work.append(s)
        return {b: (v if v is not None else set()) for b, v in fin.items()}

    def facts_at(self, node):
        if not hasattr(self, "_mf"):
            self._mf = self.must_facts()
        p = self.position(node)
        if p is None:
            return set()
        return self._mf.get(p[0], set())

    # -- branch facts with invalidation (kill on writes to the variables of the condition)
    def written_decls(self, n):
        """declIds possibly modified by executing element n (not its children)."""
        k = n["k"]
        out = set()
        if k == "UnaryOperator" and n.get("op") in ("++", "--"):
            t = strip(kids(n)[0])
            if t is not None and t["k"] == "DeclRefExpr":
                out.add(t.get("declId"))
        elif k in ("BinaryOperator", "CompoundAssignOperator") and (
                n.get("op") == "=" or k == "CompoundAssignOperator"):
            t = strip(kids(n)[0])
            if t is not None and t["k"] == "DeclRefExpr":
                out.add(t.get("declId"))
        elif k in ("CallExpr", "CXXMemberCallExpr", "CXXOperatorCallExpr", "CXXConstructExpr"):
            # an lvalue passed without lvalue-to-rvalue conversion may be bound to a
            # non-const reference / have its address taken
            for a in kids(n)[1:] if k != "CXXConstructExpr" else kids(n):
                t = a
                while t is not None and t["k"] in ("ParenExpr",):
                    t = kids(t)[0]
                if t is not None and t["k"] == "DeclRefExpr" and t.get("lv") and \
                        not t.get("ct", "").startswith("const ") and t.get("dk") in ("Var", "Parm"):
                    out.add(t.get("declId"))
                if t is not None and t["k"] == "UnaryOperator" and t.get("op") == "&":
                    u = strip(kids(t)[0])
                    if u is not None and u["k"] == "DeclRefExpr":
                        out.add(u.get("declId"))
        return out

    def cond_decls(self, cid):
        if not hasattr(self, "_cd"):
            self._cd = {}
        if cid not in self._cd:
            n = self.func.nodes.get(cid)
            self._cd[cid] = {x.get("declId") for x in walk(n) if x["k"] == "DeclRefExpr"} if n else set()
        return self._cd[cid]

    def must_facts_kill(self):
        """Like must_facts, but a fact is dropped as soon as a variable occurring
        in its condition may be written."""
        live = self.live_blocks()
        TOP = None
        fin = {b: TOP for b in live}
        fin[self.entry] = set()
        work = deque([self.entry])
        wr = {}
        for b in live:
            w = set()
            for e in self.blocks[b]["el"]:
                n = self.func.nodes.get(e)
                if n is not None:
                    w |= self.written_decls(n)
            wr[b] = w
        while work:
            b = work.popleft()
            cur = fin[b]
            if cur is TOP:
                continue
            cur = {f for f in cur if not (self.cond_decls(f[0]) & wr[b])}
            efs = self.edge_facts(b)
            for i, s in enumerate(self.succ[b]):
                if s is None or s not in live:
                    continue
                new = cur | efs[i]
                old = fin[s]
                if old is TOP:
                    fin[s] = set(new)
                    work.append(s)
                else:
                    inter = old & new
                    if inter != old:
                        fin[s] = inter
                        work.append(s)
        return {b: (v if v is not None else set()) for b, v in fin.items()}

    def valid_facts_at(self, node):
        """Branch facts that hold right before `node` executes, with kills."""
        if not hasattr(self, "_mfk"):
            self._mfk = self.must_facts_kill()
        p = self.position(node)
        if p is None:
            return set()
        facts = set(self._mfk.get(p[0], set()))
        for e in self.blocks[p[0]]["el"][:p[1]]:
            n = self.func.nodes.get(e)
            if n is None:
                continue
            w = self.written_decls(n)
            if w:
                facts = {f for f in facts if not (self.cond_decls(f[0]) & w)}
        return facts

    def semantic_must(self, edge_gen, node_kill, node_gen=None, edge_gen_uses_facts=False):
        """Forward must-analysis over arbitrary hashable facts.
        edge_gen(cond_node, polarity) -> set of facts generated on a branch edge;
        node_kill(node, fact) -> True if executing element `node` invalidates fact.
        Returns a function facts_before(node) -> set."""
        live = self.live_blocks()
        TOP = None
        fin = {b: TOP for b in live}
        fin[self.entry] = set()
        work = deque([self.entry])

        def through(b, facts, upto=None):
            els = self.blocks[b]["el"]
            if upto is not None:
                els = els[:upto]
            for e in els:
                n = self.func.nodes.get(e)
                if n is None:
                    continue
                if facts:
                    facts = {f for f in facts if not node_kill(n, f)}
                if node_gen is not None:
                    g = node_gen(n, facts)
                    if g:
                        facts = facts | g
            return facts
        while work:
            b = work.popleft()
            cur = fin[b]
            if cur is TOP:
                continue
            out = through(b, set(cur))
            efs = self.edge_facts(b)
            for i, s in enumerate(self.succ[b]):
                if s is None or s not in live:
                    continue
                gen = set()
                for (cid, pol) in efs[i]:
                    if not isinstance(pol, tuple):
                        if edge_gen_uses_facts:
                            gen |= edge_gen(self.func.nodes[cid], pol, out)
                        else:
                            gen |= edge_gen(self.func.nodes[cid], pol)
                new = out | gen
                old = fin[s]
                if old is TOP:
                    fin[s] = set(new)
                    work.append(s)
                else:
                    inter = old & new
                    if inter != old:
                        fin[s] = inter
                        work.append(s)

        def facts_before(node):
            p = self.position(node)
            if p is None or fin.get(p[0]) is None:
                return set()
            return through(p[0], set(fin[p[0]]), p[1])
        return facts_before

    # -- typestate ------------------------------------------------------------
    def run_typestate(self, init, transfer):
        """Forward may-analysis with a finite set of automaton states.
        transfer(node, state) -> iterable of next states (may record violations
        itself).  Returns states at exit."""
        live = self.live_blocks()
        sin = defaultdict(set)
        sin[self.entry] = set(init)
        work = deque([self.entry])
        inq = {self.entry}
        while work:
            b = work.popleft()
            inq.discard(b)
            cur = set(sin[b])
            for e in self.blocks[b]["el"]:
                n = self.func.nodes.get(e)
                if n is None:
                    continue
                nxt = set()
                for s in cur:
                    nxt.update(transfer(n, s))
                cur = nxt
            for s in self.succs(b):
                if s in live and not cur <= sin[s]:
                    sin[s] |= cur
                    if s not in inq:
                        work.append(s)
                        inq.add(s)
        return sin[self.exit]


class Facts:
    """Merged view over the facts of several units."""

    def __init__(self, unit_facts):
        self.units = unit_facts
        self.funcs = []
        seen = set()
        from . import refnames as _rn
        for u in unit_facts:
            for f in u.get("functions", []):
                if not f.get("_canon"):
                    f["_canon"] = 1
                    _rn.canonicalise(f)
                key = (f["id"], f.get("l"))
                if key in seen:
                    continue
                seen.add(key)
                self.funcs.append(Func(f, u.get("_unit")))
        self._by_id = {}
        for f in self.funcs:
            f._owner = self
            if not f.is_dependent():
                self._by_id.setdefault(f.id, f)
        self.enums = {}
        for u in unit_facts:
            for e in u.get("enums", []):
                self.enums.setdefault(e["qn"], e)
        self.records = {}
        for u in unit_facts:
            for r in u.get("records", []):
                self.records.setdefault(r.get("full", r["qn"]), r)
        self.vars = {}
        for u in unit_facts:
            for v in u.get("vars", []):
                self.vars.setdefault(v["qn"], v)

    def by_qn(self, qn, instantiated=True):
        """Functions with that plain qualified name.  instantiated=True drops
        dependent template patterns (no CFG)."""
        out = [f for f in self.funcs if f.qn == qn]
        if instantiated:
            out = [f for f in out if not f.is_dependent()]
        return out

    def enum_values(self, qn):
        e = self.enums.get(qn)
        if not e:
            return None
        return {x["name"]: int(x["value"]) for x in e["enumerators"]}


# ---------------------------------------------------------------------------------------------------
# shape-insensitive views: locals that merely name an expression are looked through, conditions are
# flattened.  Rules that compare guards or call objects use these so that hoisting a subexpression into
# a local, naming a condition, De Morgan rewrites and nested/merged ifs do not change the verdict.
# ---------------------------------------------------------------------------------------------------
def _stable_local_inits(f, all_locals=False):
    """declId -> initialiser node for locals that are initialised at their declaration, never written again and
    either references, const-qualified or of type bool (a named condition); with all_locals every such local
    whatever its type (value copies included: use only to recognise shapes, not to reason about aliasing)"""
    attr = "_stable_inits_all" if all_locals else "_stable_inits"
    if hasattr(f, attr):
        return getattr(f, attr)
    written = set()
    for n in f.walk():
        k = n["k"]
        if k == "UnaryOperator" and n.get("op") in ("++", "--", "&"):
            t = strip(kids(n)[0])
            if t is not None and t["k"] == "DeclRefExpr":
                written.add(t.get("declId"))
        elif k in ("BinaryOperator", "CompoundAssignOperator") and (n.get("op") == "=" or k == "CompoundAssignOperator"):
            t = strip(kids(n)[0])
            if t is not None and t["k"] == "DeclRefExpr":
                written.add(t.get("declId"))
    out = {}
    for n in f.walk():
        if n["k"] != "VarDecl" or not kids(n) or n.get("declId") in written:
            continue
        ct = (n.get("ct") or n.get("t") or "").strip()
        ini = kids(n)[0]
        if ini is None:
            continue
        if all_locals or ct.endswith("&") or ct.startswith("const ") or ct in ("bool", "_Bool"):
            if strip(ini) is not None and strip(ini)["k"] not in ("InitListExpr", "CXXConstructExpr", "LambdaExpr"):
                out[n["declId"]] = ini
    setattr(f, attr, out)
    return out


def _pure_predicate(g):
    """the returned expression of a helper whose body is a single `return e;` (e without calls to non-helpers,
    assignments or increments), else None"""
    if hasattr(g, "_pure_ret"):
        return g._pure_ret
    g._pure_ret = None
    body = [x for x in (g.roots or []) if x is not None and x["k"] == "CompoundStmt"]
    if len(body) == 1:
        st = [x for x in kids(body[0]) if x is not None and x["k"] != "NullStmt"]
        if len(st) == 1 and st[0]["k"] == "ReturnStmt" and kids(st[0]):
            e = kids(st[0])[0]
            bad = [x for x in walk(e) if (x["k"] in ("BinaryOperator", "CompoundAssignOperator") and (x.get("op") == "=" or x["k"] == "CompoundAssignOperator"))
                   or (x["k"] == "UnaryOperator" and x.get("op") in ("++", "--"))]
            uses_this = any(x["k"] == "CXXThisExpr" for x in walk(e))
            if not bad and not uses_this and len(list(walk(e))) <= 40:
                g._pure_ret = e
    return g._pure_ret


def _subst_params(e, binding):
    if e is None:
        return e
    if e["k"] == "DeclRefExpr" and e.get("declId") in binding:
        return binding[e["declId"]]
    if not e.get("c"):
        return e
    m = dict(e)
    m["c"] = [_subst_params(c, binding) if c is not None else None for c in e["c"]]
    return m


def expand_locals(f, n, depth=0, all_locals=False):
    """copy of expression n with references to stable locals replaced by their initialisers and calls of
    one-line pure helpers (`static bool IsDigit(char c) { return c >= '0' && c <= '9'; }`) replaced by their body"""
    if n is None or depth > 6:
        return n
    inits = _stable_local_inits(f, all_locals)
    if n["k"] == "DeclRefExpr" and n.get("declId") in inits:
        return expand_locals(f, strip(inits[n["declId"]]), depth + 1, all_locals)
    if n["k"] in ("CallExpr", "CXXMemberCallExpr", "CXXOperatorCallExpr") and n.get("calleeId") and getattr(f, "_owner", None) is not None \
            and (n["k"] != "CXXOperatorCallExpr" or n.get("op") == "()"):
        g = f._owner._by_id.get(n["calleeId"])
        if g is not None and g is not f:
            e = _pure_predicate(g)
            a = call_args(n)
            if n["k"] == "CXXOperatorCallExpr":
                a = a[1:]                # the closure object comes first
            if e is not None and len(a) == len(g.params) and len(a) >= 1:
                binding = {p["declId"]: strip(expand_locals(f, x, depth + 1, all_locals)) for p, x in zip(g.params, a)}
                return {"k": "ParenExpr", "i": n.get("i"), "l": n.get("l"), "c": [_subst_params(strip(e), binding)]}
    if not n.get("c"):
        return n
    m = dict(n)
    m["c"] = [expand_locals(f, c, depth, all_locals) if c is not None else None for c in n["c"]]
    return m


def xrender(f, n, all_locals=False):
    """render() after looking through stable locals"""
    return render(expand_locals(f, n, 0, all_locals))


def canon_rel(t_op_u, pol):
    """(text, pol) of a relational atom in canonical form: only `<` and `==` remain, operands of `==` ordered"""
    a, op, b = t_op_u
    if op == ">=":
        return ("%s<%s" % (a, b), not pol)
    if op == ">":
        return ("%s<%s" % (b, a), pol)
    if op == "<=":
        return ("%s<%s" % (b, a), not pol)
    if op == "<":
        return ("%s<%s" % (a, b), pol)
    if op == "!=":
        x, y = sorted([a, b])
        return ("%s==%s" % (x, y), not pol)
    x, y = sorted([a, b])
    return ("%s==%s" % (x, y), pol)


def norm_facts(f, n, loop_conditions=True, all_locals=False, canon=False):
    """branch facts at n as a sorted list of (text, polarity): stable locals expanded, `!` folded into the polarity,
    true conjunctions and false disjunctions split into their atoms (white space removed from the text)"""
    out = []

    def add(c, pol):
        c = strip(c)
        while c is not None and c["k"] == "UnaryOperator" and c.get("op") == "!":
            pol = not pol
            c = strip(kids(c)[0])
        if c is None:
            return
        if c["k"] == "BinaryOperator" and ((c.get("op") == "&&" and pol) or (c.get("op") == "||" and not pol)):
            add(kids(c)[0], pol)
            add(kids(c)[1], pol)
            return
        if canon and c["k"] == "BinaryOperator" and c.get("op") in ("<", "<=", ">", ">=", "==", "!="):
            out.append(canon_rel((render(kids(c)[0]).replace(" ", ""), c["op"], render(kids(c)[1]).replace(" ", "")), pol))
            return
        out.append((render(c).replace(" ", ""), pol))
    for cid, pol in f.cfg.facts_at(n):
        if isinstance(pol, tuple):
            out.append(("switch(%s)==%s" % (render(f.nodes[cid]).replace(" ", ""), pol[1]), True))
            continue
        if not loop_conditions:
            par = f.parent.get(cid)
            while par is not None and par["k"] in ("ImplicitCastExpr", "ParenExpr", "ExprWithCleanups"):
                par = f.parent.get(par["i"])
            if par is not None and par["k"] in ("ForStmt", "WhileStmt", "DoStmt", "CXXForRangeStmt"):
                continue
        add(expand_locals(f, f.nodes[cid], 0, all_locals), pol)
    return sorted(set(out))


def reach_calls(F, f, want, depth=2):
    """calls satisfying want(call) that f executes itself or through helpers whose bodies are exported.
    Yields (anchor, call, resolve, owner): anchor is the call node in f (the call itself or the helper call leading to
    it), resolve(expr) rewrites an argument expression of `call` into f's terms (helper parameters replaced by
    the arguments f passes), owner is the function whose body contains `call`."""
    by_id = getattr(F, "_by_id", {})
    for c in f.walk():
        if c["k"] not in ("CallExpr", "CXXMemberCallExpr", "CXXConstructExpr", "CXXTemporaryObjectExpr", "CXXOperatorCallExpr"):
            continue
        if want(c):
            yield c, c, (lambda e: e), f
            continue
        g = by_id.get(c.get("calleeId"))
        if g is None or g is f or depth <= 0 or g.cfg is None:
            continue
        args = call_args(c) if c["k"] not in ("CXXConstructExpr", "CXXTemporaryObjectExpr") else kids(c)
        if c["k"] == "CXXOperatorCallExpr" and c.get("op") == "()":
            args = kids(c)[2:]               # lambda call: callee object first
        binding = {p["declId"]: strip(a) for p, a in zip(g.params, args)}
        for _, c2, res2, owner in reach_calls(F, g, want, depth - 1):
            yield c, c2, (lambda e, res2=res2, binding=binding: _subst_params(res2(e), binding)), owner


class _CaseReturn(Exception):
    def __init__(self, node):
        self.node = node


def eval_cases(f, names, atom, on_return, max_cases=256):
    """Truth-table evaluation of a small decision function, independent of how its conditions are nested.
    For every assignment of True/False to `names` the body of f is executed structurally (blocks, if/else, early
    returns, ternaries); conditions are decomposed over !, &&, ||, the comma operator and stable locals (expanded)
    down to atoms; atom(text, node) returns a name, a (name, True) pair for the negation of a name, a bool, or None
    (unknown -> AnalysisBroken).  on_return(expr_node, value_of) is called with the returned expression and a function
    evaluating any condition expression under the current assignment.  Returns {assignment tuple: result}."""
    from .facts import AnalysisBroken
    import itertools
    if 2 ** len(names) > max_cases:
        raise AnalysisBroken("eval_cases: too many atoms")

    def cond(n, env):
        n = strip(expand_locals(f, n, 0, True))
        if n is None:
            raise AnalysisBroken("eval_cases: empty condition")
        k = n["k"]
        if k == "CXXBoolLiteralExpr":
            return str(n.get("v")).lower() in ("true", "1")
        if k == "UnaryOperator" and n.get("op") == "!":
            return not cond(kids(n)[0], env)
        if k == "BinaryOperator" and n.get("op") in ("&&", "||"):
            a = cond(kids(n)[0], env)
            if n["op"] == "&&":
                return a and cond(kids(n)[1], env)
            return a or cond(kids(n)[1], env)
        if k == "BinaryOperator" and n.get("op") == ",":
            return cond(kids(n)[1], env)
        if k == "ConditionalOperator":
            c, a, b = kids(n)
            return cond(a if cond(c, env) else b, env)
        t = render(n).replace(" ", "").replace("this->", "").replace("std::", "")
        r = atom(t, n)
        if isinstance(r, bool):
            return r
        if isinstance(r, tuple):
            return not env[r[0]]
        if r in env:
            return env[r]
        raise AnalysisBroken("eval_cases: condition `%s` of %s is not one of the expected tests" % (render(n)[:70], f.name))

    def run(stmts, env):
        for s in stmts:
            if s is None:
                continue
            k = s["k"]
            if k == "CompoundStmt":
                run(kids(s), env)
            elif k == "IfStmt":
                ch = [x for x in s["c"] if x is not None]
                if cond(ch[0], env):
                    run([ch[1]], env)
                elif len(ch) > 2:
                    run([ch[2]], env)
            elif k == "ReturnStmt":
                raise _CaseReturn(kids(s)[0] if kids(s) else None)
            # declarations and expression statements have no influence on the decision (locals are looked through)
    body = [x for x in (f.roots or []) if x is not None and x["k"] == "CompoundStmt"]
    if not body:
        raise AnalysisBroken("eval_cases: %s has no body" % f.name)
    out = {}
    for vals in itertools.product((False, True), repeat=len(names)):
        env = dict(zip(names, vals))
        try:
            run(kids(body[-1]), env)
            out[vals] = on_return(None, lambda e, env=env: cond(e, env))
        except _CaseReturn as r:
            out[vals] = on_return(r.node, lambda e, env=env: cond(e, env))
    return out


class CaseThrow(Exception):
    """the evaluated case ends in a throw"""


class _LoopBreak(Exception):
    pass


class _LoopContinue(Exception):
    pass


class MiniInt:
    """Concrete evaluation of small integer/boolean code for case tables: literals, locals, parameters, arithmetic,
    bitwise, relational and logical operators, ?:, assignments and compound assignments, declarations, if/else, return,
    and calls - first offered to atom(text, node, env) (return None to decline), then inlined when the callee body is
    exported.  Nothing of the program under analysis is run; the interpreter walks the AST."""

    def __init__(self, F, atom, max_depth=3, mem=None, seq=None):
        self.F, self.atom, self.max_depth = F, atom, max_depth
        self.mem = mem          # mem(address) -> value, for `*p` / `p[i]` over a modelled buffer (pointers are integers)
        self.seq = seq          # seq(text, node, env) -> list of element values of a container expression (range-for, algorithms)
        self.select_only = False  # True: `return e;` ends the case with the ReturnStmt node itself (which return is taken), and
                                  # declarations whose initialiser is outside the fragment are kept opaque
        self.cur = []           # stack of the functions being evaluated (to find the lambdas they define)
        self.store = None       # store(text, node, value, env) -> True if the rule models the assigned storage

    def _lambda_of(self, node):
        """the operator() of the lambda written at `node` (a LambdaExpr, possibly wrapped), looked up among the exported functions"""
        lam = next((x for x in walk(node) if x["k"] == "LambdaExpr"), None)
        cands = []
        for g in (self.cur[-1:] or []):
            cands = [h for h in self.F.funcs if h.qn == g.qn + "::(lambda)::operator()" and not h.is_dependent()]
        if lam is not None and len(cands) > 1:
            loc = (lam.get("l") or "").rsplit(":", 1)[0]
            near = [h for h in cands if (h.loc or "").rsplit(":", 1)[0] == loc]
            cands = near or cands
        seen, uniq = set(), []
        for h in cands:
            if h.loc not in seen:
                seen.add(h.loc)
                uniq.append(h)
        return uniq[0] if len(uniq) == 1 else None

    def _algorithm(self, n, env, depth):
        from .facts import AnalysisBroken
        name = (n.get("callee") or "").split("::")[-1]
        a = call_args(n)
        t0 = render(a[0]).replace(" ", "")
        cont = re.sub(r"\.c?begin\(\)$", "", t0)
        elems = self.seq(cont, a[0], env) if self.seq is not None else None
        if elems is None:
            raise AnalysisBroken("MiniInt: container `%s` of %s is not modelled" % (cont, name))
        if name == "count" and len(a) == 3:
            v = self.expr(a[2], env, depth)
            return sum(1 for e_ in elems if e_ == v)
        if name == "accumulate" and len(a) == 4:
            # std::accumulate(first, last, init, op): a left fold with the binary lambda
            acc = self.expr(a[2], env, depth)
            h = self._lambda_of(a[3])
            if h is None or len(h.params) != 2:
                raise AnalysisBroken("MiniInt: the operation of accumulate is not a binary lambda of this function")
            body = [x for x in h.roots if x is not None and x["k"] == "CompoundStmt"]
            for e_ in elems:
                env2 = dict(env)
                env2[h.params[0]["declId"]] = acc
                env2[h.params[1]["declId"]] = e_
                try:
                    self.run(kids(body[-1]), env2, depth + 1)
                    raise AnalysisBroken("MiniInt: the operation of accumulate returns nothing")
                except _CaseReturn as r_:
                    acc = r_.node
            return acc
        h = self._lambda_of(a[2])
        if h is None:
            raise AnalysisBroken("MiniInt: the predicate of %s is not a lambda of this function" % name)
        vals = []
        for e_ in elems:
            env2 = dict(env)
            env2[h.params[0]["declId"]] = e_
            body = [x for x in h.roots if x is not None and x["k"] == "CompoundStmt"]
            try:
                self.run(kids(body[-1]), env2, depth + 1)
                vals.append(0)
            except _CaseReturn as r_:
                vals.append(r_.node)
        if name == "any_of":
            return int(any(vals))
        if name == "all_of":
            return int(all(vals))
        if name == "none_of":
            return int(not any(vals))
        if name == "count_if":
            return sum(1 for v in vals if v)
        raise AnalysisBroken("MiniInt: algorithm %s" % name)

    def expr(self, n, env, depth=0):
        from .facts import AnalysisBroken
        n = strip(n)
        k = n["k"]
        if k in ("IntegerLiteral", "CharacterLiteral"):
            return int(n["v"])
        if k == "FloatingLiteral":
            return float(n["v"])
        if k == "CXXBoolLiteralExpr":
            return int(str(n.get("v")).lower() in ("true", "1"))
        if k == "DeclRefExpr" and ("ref", n.get("declId")) in env:
            return self.expr(env[("ref", n["declId"])], env, depth)          # a local reference to modelled storage: read through
        if k == "DeclRefExpr" and n.get("declId") in env:
            return env[n["declId"]]
        if "cv" in n and k not in ("DeclRefExpr", "MemberExpr"):
            try:
                return int(n["cv"])
            except ValueError:
                try:
                    return float(n["cv"])
                except ValueError:
                    pass
        if k == "DeclRefExpr" and n.get("dk") == "EnumConst" and "cv" in n:
            return int(n["cv"])
        if k not in ("UnaryOperator", "BinaryOperator", "CompoundAssignOperator", "ConditionalOperator"):
            t = render(n).replace(" ", "").replace("this->", "")
            r = self.atom(t, n, env)
            if r is not None:
                return r if isinstance(r, float) else int(r)
        if k == "UnaryOperator" and n.get("op") == "*" and self.mem is not None:
            return int(self.mem(self.expr(kids(n)[0], env, depth)))
        if k == "ArraySubscriptExpr" and strip(kids(n)[0])["k"] == "DeclRefExpr" and isinstance(env.get(strip(kids(n)[0]).get("declId")), list):
            arr_ = env[strip(kids(n)[0])["declId"]]
            ix_ = self.expr(kids(n)[1], env, depth)
            if not (isinstance(ix_, int) and 0 <= ix_ < len(arr_)):
                raise AnalysisBroken("MiniInt: `%s` reads element %s of a local array of %d" % (render(n)[:40], ix_, len(arr_)))
            return arr_[ix_]
        if k == "ArraySubscriptExpr" and self.mem is not None:
            return int(self.mem(self.expr(kids(n)[0], env, depth) + self.expr(kids(n)[1], env, depth)))
        if k == "UnaryOperator":
            op = n.get("op")
            if op in ("++", "--"):
                tgt = strip(kids(n)[0])
                old = env[tgt["declId"]]
                env[tgt["declId"]] = old + (1 if op == "++" else -1)
                return old if n.get("postfix") else env[tgt["declId"]]
            v = self.expr(kids(n)[0], env, depth)
            return {"!": lambda: int(not v), "-": lambda: -v, "~": lambda: ~v, "+": lambda: v}[op]()
        if k == "BinaryOperator":
            op = n["op"]
            a_, b_ = kids(n)
            if op == "=":
                v = self.expr(b_, env, depth)
                t_ = strip(a_)
                if t_["k"] == "DeclRefExpr" and ("ref", t_.get("declId")) in env:
                    t_ = strip(env[("ref", t_["declId"])])                 # written through a local reference
                if t_.get("declId") is None or t_["k"] != "DeclRefExpr":
                    # a store into modelled storage (an element, a member): the rule's `store` hook takes it
                    if self.store is None or not self.store(render(t_).replace(" ", ""), t_, v, env):
                        raise AnalysisBroken("MiniInt: assignment to `%s` outside the fragment" % render(t_)[:60])
                    return v
                env[t_["declId"]] = v
                return v
            if op == "&&":
                return int(bool(self.expr(a_, env, depth)) and bool(self.expr(b_, env, depth)))
            if op == "||":
                return int(bool(self.expr(a_, env, depth)) or bool(self.expr(b_, env, depth)))
            if op == ",":
                self.expr(a_, env, depth)
                return self.expr(b_, env, depth)
            x, y = self.expr(a_, env, depth), self.expr(b_, env, depth)
            return {"+": lambda: x + y, "-": lambda: x - y, "*": lambda: x * y, "&": lambda: x & y, "|": lambda: x | y, "^": lambda: x ^ y,
                    "<<": lambda: x << y, ">>": lambda: x >> y, "<": lambda: int(x < y), ">": lambda: int(x > y), "<=": lambda: int(x <= y),
                    ">=": lambda: int(x >= y), "==": lambda: int(x == y), "!=": lambda: int(x != y),
                    "/": lambda: int(x / y) if y else 0, "%": lambda: x - int(x / y) * y if y else 0}[op]()
        if k == "CompoundAssignOperator":
            tgt = strip(kids(n)[0])
            op = n.get("op", "")[:-1]
            fn_ = {"|": lambda x, y: x | y, "&": lambda x, y: x & y, "+": lambda x, y: x + y, "-": lambda x, y: x - y, "^": lambda x, y: x ^ y,
                   "*": lambda x, y: x * y, "/": lambda x, y: x / y}[op]
            if tgt["k"] == "DeclRefExpr" and ("ref", tgt.get("declId")) in env:
                tgt = strip(env[("ref", tgt["declId"])])
            if tgt["k"] != "DeclRefExpr" or tgt.get("declId") not in env:
                # element / member of modelled storage: read through the atoms, written through the store hook
                x, y = self.expr(tgt, env, depth), self.expr(kids(n)[1], env, depth)
                v = fn_(x, y)
                if self.store is None or not self.store(render(tgt).replace(" ", ""), tgt, v, env):
                    raise AnalysisBroken("MiniInt: compound assignment to `%s` outside the fragment" % render(tgt)[:60])
                return v
            x, y = env[tgt["declId"]], self.expr(kids(n)[1], env, depth)
            env[tgt["declId"]] = fn_(x, y)
            return env[tgt["declId"]]
        if k == "ConditionalOperator":
            c, a_, b_ = kids(n)
            return self.expr(a_ if self.expr(c, env, depth) else b_, env, depth)
        if k in ("InitListExpr", "ImplicitValueInitExpr", "CXXScalarValueInitExpr") and len(kids(n)) <= 1:
            return self.expr(kids(n)[0], env, depth) if kids(n) else 0          # `T v {};` / `T v {e};`
        if k in ("CStyleCastExpr", "CXXStaticCastExpr", "CXXFunctionalCastExpr", "CXXReinterpretCastExpr") and kids(n):
            return self.expr(kids(n)[0], env, depth)
        if k == "CXXThrowExpr":
            raise CaseThrow(render(n)[:80])
        if k == "CallExpr" and (n.get("callee") or "").split("::")[-1] in ("any_of", "all_of", "none_of", "count_if", "count") and len(call_args(n)) == 3:
            return self._algorithm(n, env, depth)
        if k == "CallExpr" and (n.get("callee") or "").split("::")[-1] == "accumulate" and len(call_args(n)) == 4:
            return self._algorithm(n, env, depth)
        if k == "CallExpr" and (n.get("callee") or "") in ("std::min", "std::max") and len(call_args(n)) == 2:
            x_, y_ = self.expr(call_args(n)[0], env, depth), self.expr(call_args(n)[1], env, depth)
            return min(x_, y_) if n["callee"].endswith("min") else max(x_, y_)
        if k in ("CallExpr", "CXXMemberCallExpr") and depth < self.max_depth:
            g = getattr(self.F, "_by_id", {}).get(n.get("calleeId"))
            if g is not None and g.roots:
                args = [self.expr(a, env, depth) if not self._opaque(a, env) else ("obj", a, env) for a in call_args(n)]
                return self.call(g, args, depth + 1)
        if k == "CXXOperatorCallExpr" and n.get("op") == "()" and depth < self.max_depth:
            g = getattr(self.F, "_by_id", {}).get(n.get("calleeId"))             # a call of a local lambda whose body is exported
            if g is not None and g.roots and g.d.get("isLambda"):
                args = [self.expr(a, env, depth) if not self._opaque(a, env) else ("obj", a, env) for a in kids(n)[2:]]
                return self.call(g, args, depth + 1)
        raise AnalysisBroken("MiniInt: expression `%s` outside the fragment" % render(n)[:70])

    def _opaque(self, a, env):
        a = strip(a)
        ct = (a.get("ct") or "")
        if self.mem is not None and ct.replace("const ", "").replace(" ", "") in ("char*", "char*&"):
            return False          # a position in the modelled buffer
        return not any(ct.replace("const ", "").strip() == x for x in ("int", "bool", "unsigned int", "long", "unsigned long", "char", "short", "double"))

    def call(self, g, args, depth=0):
        from .facts import AnalysisBroken
        env = {p["declId"]: v for p, v in zip(g.params, args)}
        body = [x for x in g.roots if x is not None and x["k"] == "CompoundStmt"]
        self.cur.append(g)
        try:
            self.run(kids(body[-1]), env, depth)
        except _CaseReturn as r:
            return r.node
        finally:
            self.cur.pop()
        if depth > 0:
            return 0                 # an inlined helper that ends without `return` (a void function): the caller continues
        raise AnalysisBroken("MiniInt: %s has a path without a return" % g.name)

    def run(self, stmts, env, depth=0, stop=None):
        from .facts import AnalysisBroken
        for s in stmts:
            if s is None:
                continue
            if stop is not None and stop(s):
                return True
            k = s["k"]
            if k == "CompoundStmt":
                if self.run(kids(s), env, depth, stop):
                    return True
            elif k == "DeclStmt":
                for v in kids(s):
                    if v["k"] == "VarDecl":
                        if not kids(v):
                            env[v["declId"]] = 0
                            continue
                        ct_ = (v.get("ct") or v.get("t") or "").strip()
                        i0_ = strip(kids(v)[0])
                        if self.store is not None and ct_.endswith("&") and not ct_.startswith("const ") and i0_ is not None and \
                                i0_["k"] in ("CXXOperatorCallExpr", "ArraySubscriptExpr", "MemberExpr", "UnaryOperator"):
                            env[("ref", v["declId"])] = kids(v)[0]           # T& x = a[i]: reads and writes of x go to a[i]
                            continue
                        if i0_ is not None and i0_["k"] == "InitListExpr" and re.search(r"\[\d*\]$", ct_) and len(kids(i0_)) >= 1:
                            try:
                                env[v["declId"]] = [self.expr(e_, env, depth) for e_ in kids(i0_)]     # T a[] = {e0, e1, ...}: a local array of scalars
                                continue
                            except AnalysisBroken:
                                pass
                        try:
                            env[v["declId"]] = self.expr(kids(v)[0], env, depth)
                        except AnalysisBroken:
                            if self._opaque(v, env) or self.select_only:
                                env[v["declId"]] = ("obj", kids(v)[0], env)      # a non-scalar local (reference to a container, ...)
                            else:
                                raise
            elif k == "IfStmt":
                ch = [x for x in s["c"] if x is not None]
                if ch and ch[0]["k"] == "DeclStmt":          # if (auto v = init): the condition is the variable
                    self.run([ch[0]], env, depth)
                    ch = ch[1:]
                if self.expr(ch[0], env, depth):
                    if self.run([ch[1]], env, depth, stop):
                        return True
                elif len(ch) > 2:
                    if self.run([ch[2]], env, depth, stop):
                        return True
            elif k == "SwitchStmt":
                ch = [x for x in s["c"] if x is not None]
                if ch and ch[0]["k"] == "DeclStmt":
                    self.run([ch[0]], env, depth)
                    ch = ch[1:]
                v = self.expr(ch[0], env, depth)
                secs = switch_sections(s)
                seq = secs.get(v, secs.get("default", []))
                try:
                    if self.run([x for x in seq if x["k"] != "BreakStmt"], env, depth, stop):
                        return True
                except _LoopBreak:
                    pass
            elif k in ("WhileStmt", "ForStmt", "DoStmt"):
                ks_ = s.get("c", [])
                if k == "ForStmt":
                    ini_, cond_, inc_, body_ = ks_[0], ks_[2], ks_[3], ks_[4] if len(ks_) > 4 else None
                elif k == "WhileStmt":
                    ini_, inc_ = None, None
                    cond_, body_ = kids(s)[0], kids(s)[1] if len(kids(s)) > 1 else None
                else:
                    ini_, inc_ = None, None
                    body_, cond_ = kids(s)[0], kids(s)[1]
                if ini_ is not None:
                    self.run([ini_], env, depth)
                first = (k == "DoStmt")
                for _it in range(2000):
                    if not first and cond_ is not None and not self.expr(cond_, env, depth):
                        break
                    first = False
                    try:
                        if body_ is not None and self.run([body_], env, depth, stop):
                            return True
                    except _LoopBreak:
                        break
                    except _LoopContinue:
                        pass
                    if inc_ is not None:
                        self.expr(inc_, env, depth)
                else:
                    raise AnalysisBroken("MiniInt: loop does not terminate on the modelled input")
            elif k == "CXXForRangeStmt":
                lv = [x for x in walk(s) if x["k"] == "VarDecl" and x.get("name") and not x["name"].startswith("__")]
                rng = [x for x in walk(s) if x["k"] == "VarDecl" and (x.get("name") or "").startswith("__range") and kids(x)]
                body_ = [x for x in s.get("c", []) if x is not None][-1]
                elems = self.seq(render(kids(rng[0])[0]).replace(" ", ""), kids(rng[0])[0], env) if (self.seq is not None and lv and rng) else None
                if elems is None and lv and rng:
                    r0_ = strip(kids(rng[0])[0])
                    if r0_["k"] == "DeclRefExpr" and isinstance(env.get(r0_.get("declId")), list):
                        elems = list(env[r0_["declId"]])                 # a local array of scalars
                    elif r0_["k"] in ("InitListExpr", "CXXStdInitializerListExpr"):
                        il_ = next((x for x in walk(r0_) if x["k"] == "InitListExpr"), None)
                        if il_ is not None:
                            elems = [self.expr(e_, env, depth) for e_ in kids(il_)]     # for (x : {a, b, c})
                if elems is None:
                    raise AnalysisBroken("MiniInt: range of the range-for is not modelled")
                for e_ in elems:
                    env[lv[0]["declId"]] = e_
                    try:
                        if self.run([body_], env, depth, stop):
                            return True
                    except _LoopBreak:
                        break
                    except _LoopContinue:
                        pass
            elif k == "ContinueStmt":
                raise _LoopContinue()
            elif k == "BreakStmt":
                raise _LoopBreak()
            elif k == "CXXThrowExpr" or (k == "ExprWithCleanups" and strip(s) is not None and strip(s)["k"] == "CXXThrowExpr"):
                raise CaseThrow(render(s)[:80])
            elif k == "ReturnStmt":
                if self.select_only and depth == 0:
                    raise _CaseReturn(s)
                raise _CaseReturn(self.expr(kids(s)[0], env, depth) if kids(s) else None)
            elif k == "NullStmt":
                pass
            else:
                self.expr(s, env, depth)
        return False


def norm_fact_nodes(f, n, all_locals=True):
    """like norm_facts but returns (atom node, polarity) pairs: stable locals expanded, `!` folded, true conjunctions
    and false disjunctions split"""
    out = []

    def add(c, pol):
        c = strip(c)
        while c is not None and c["k"] == "UnaryOperator" and c.get("op") == "!":
            pol = not pol
            c = strip(kids(c)[0])
        if c is None:
            return
        if c["k"] == "BinaryOperator" and ((c.get("op") == "&&" and pol) or (c.get("op") == "||" and not pol)):
            add(kids(c)[0], pol)
            add(kids(c)[1], pol)
            return
        out.append((c, pol))
    for cid, pol in f.cfg.facts_at(n):
        if isinstance(pol, tuple):
            continue
        add(expand_locals(f, f.nodes[cid], 0, all_locals), pol)
    return out


def cond_atoms(f, cond, pol=True, canon=True, all_locals=False):
    """the atoms a condition expression contributes when it has truth `pol` (same normalisation as norm_facts)"""
    out = []

    def add(c, p):
        c = strip(c)
        while c is not None and c["k"] == "UnaryOperator" and c.get("op") == "!":
            p = not p
            c = strip(kids(c)[0])
        if c is None:
            return
        if c["k"] == "BinaryOperator" and ((c.get("op") == "&&" and p) or (c.get("op") == "||" and not p)):
            add(kids(c)[0], p)
            add(kids(c)[1], p)
            return
        if canon and c["k"] == "BinaryOperator" and c.get("op") in ("<", "<=", ">", ">=", "==", "!="):
            out.append(canon_rel((render(kids(c)[0]).replace(" ", ""), c["op"], render(kids(c)[1]).replace(" ", "")), p))
            return
        out.append((render(c).replace(" ", ""), p))
    add(expand_locals(f, cond, 0, all_locals), pol)
    return out


def loop_shape(f, loop):
    """Counting loops independent of their spelling.  Returns dict(var=declId, name=..., dir='up'|'down', bound=node,
    start=node|None ('continues' when the variable is neither declared nor assigned before the loop in its block),
    rel='<'|'!='|'<='|'--', stepped=bool) for
        for (T v = S; v < B; ++v)            while (v < B) { ...; ++v; }          (also != and <=)
        for (T v = N; v--; )                  while (v-- > 0) / while (v--)        (down from N-1 to 0: bound = N)
    or None if the loop is not of such a form."""
    if loop is None or loop["k"] not in ("ForStmt", "WhileStmt"):
        return None

    def vid_of(n):
        """identity of a loop variable: a local / parameter, or a member of *this"""
        n = strip(n)
        if n is None:
            return None
        if n["k"] == "DeclRefExpr":
            return n.get("declId")
        if n["k"] == "MemberExpr" and kids(n) and strip(kids(n)[0]) is not None and strip(kids(n)[0])["k"] == "CXXThisExpr":
            return "this." + n.get("name", "?")
        return None
    ks = loop.get("c", [])
    if loop["k"] == "ForStmt":
        ini, cond, inc = ks[0], ks[2], ks[3]
    else:
        ini, cond, inc = None, ks[1] if len(ks) > 1 and ks[0] is None else kids(loop)[0], None
        cond = kids(loop)[0]
    cond = strip(cond) if cond is not None else None
    if cond is None:
        return None
    body = [x for x in ks if x is not None][-1]

    def init_in(st, vid):
        if st is None:
            return None
        for n in walk(st):
            if n["k"] == "VarDecl" and n.get("declId") == vid and kids(n):
                return kids(n)[0]
            if n["k"] == "BinaryOperator" and n.get("op") == "=" and vid_of(kids(n)[0]) == vid:
                return kids(n)[1]
        return None

    def start_of(vid):
        s0 = init_in(ini, vid)
        if s0 is not None:
            return s0
        par = f.parent.get(loop["i"])
        sibs = [x for x in (kids(par) if par is not None else []) if x is not None]
        idx = next((k_ for k_, x in enumerate(sibs) if x["i"] == loop["i"]), 0)
        for prev in reversed(sibs[:idx]):
            if prev["k"] in ("ForStmt", "WhileStmt", "DoStmt", "CXXForRangeStmt"):
                if any(vid_of(x) == vid for x in walk(prev) if x["k"] in ("DeclRefExpr", "MemberExpr")):
                    return None                   # continues after an earlier loop over the same variable
                continue
            s0 = init_in(prev, vid)
            if s0 is not None:
                return s0
        return None
    # down-counting: the condition itself decrements
    dec = cond
    if dec["k"] == "BinaryOperator" and dec.get("op") in (">", "!=") and cv(kids(dec)[1]) == 0:
        dec = strip(kids(dec)[0])
    if dec["k"] == "UnaryOperator" and dec.get("op") == "--" and dec.get("postfix"):
        v = strip(kids(dec)[0])
        if vid_of(v) is not None:
            vid = vid_of(v)
            other = [n for n in walk(body) if n["k"] in ("UnaryOperator", "BinaryOperator", "CompoundAssignOperator") and
                     (n.get("op") in ("++", "--", "=") or n["k"] == "CompoundAssignOperator") and vid_of(kids(n)[0]) == vid]
            return dict(var=vid, name=v.get("name"), dir="down", bound=start_of(vid), start=None, rel="--", stepped=not other and inc is None, values="below")
        return None
    if cond["k"] == "BinaryOperator" and cond.get("op") in (">", "!=") and cv(kids(cond)[1]) == 0 and vid_of(kids(cond)[0]) is not None:
        # counting down to zero:  for (v = N; v > 0; --v)  /  while (v > 0) { ...; --v; }   (N iterations)
        v = strip(kids(cond)[0])
        vid = vid_of(v)
        decs = [n for n in walk(loop) if (n["k"] == "UnaryOperator" and n.get("op") == "--" and vid_of(kids(n)[0]) == vid) or
                (n["k"] == "CompoundAssignOperator" and n.get("op") == "-=" and vid_of(kids(n)[0]) == vid and cv(kids(n)[1]) == 1)]
        writes = [n for n in walk(body) if n["k"] == "BinaryOperator" and n.get("op") == "=" and vid_of(kids(n)[0]) == vid]
        ups = [n for n in walk(loop) if n["k"] == "UnaryOperator" and n.get("op") == "++" and vid_of(kids(n)[0]) == vid]
        if len(decs) == 1 and not ups:
            nested = False
            for a in f.ancestors(decs[0]):
                if a["i"] == loop["i"]:
                    break
                if a["k"] in ("IfStmt", "SwitchStmt", "ForStmt", "WhileStmt", "DoStmt", "CXXForRangeStmt", "ConditionalOperator"):
                    nested = True
            # values seen by the body: N-1..0 when the decrement is the first thing the body does, N..1 when it comes last
            tops_ = [x for x in (kids(body) if body["k"] == "CompoundStmt" else [body]) if x is not None]
            first_ = bool(tops_) and loop["k"] != "ForStmt" or (loop["k"] == "ForStmt" and inc is None)
            first_ = first_ and bool(tops_) and any(x["i"] == decs[0]["i"] for x in walk(tops_[0])) and tops_[0]["k"] in ("UnaryOperator", "CompoundAssignOperator")
            return dict(var=vid, name=v.get("name"), dir="down", bound=start_of(vid), start=None, rel=">0", stepped=not writes and not nested,
                        values="below" if first_ else "upto")
    if cond["k"] == "BinaryOperator" and cond.get("op") == ">=" and cv(kids(cond)[1]) == 0 and vid_of(kids(cond)[0]) is not None:
        # for (v = S; v >= 0; --v): the body sees S, S-1, ..., 0 (signed v)
        v = strip(kids(cond)[0])
        vid = vid_of(v)
        decs = [n for n in walk(loop) if (n["k"] == "UnaryOperator" and n.get("op") == "--" and vid_of(kids(n)[0]) == vid) or
                (n["k"] == "CompoundAssignOperator" and n.get("op") == "-=" and vid_of(kids(n)[0]) == vid and cv(kids(n)[1]) == 1)]
        writes = [n for n in walk(body) if n["k"] == "BinaryOperator" and n.get("op") == "=" and vid_of(kids(n)[0]) == vid]
        ups = [n for n in walk(loop) if n["k"] == "UnaryOperator" and n.get("op") == "++" and vid_of(kids(n)[0]) == vid]
        last_ = loop["k"] == "ForStmt" and inc is not None and len(decs) == 1 and any(x["i"] == decs[0]["i"] for x in walk(inc))
        if last_ and not ups and not writes:
            return dict(var=vid, name=v.get("name"), dir="down", bound=None, start=start_of(vid), rel=">=0", stepped=True, values="from-start")
        return None
    if cond["k"] != "BinaryOperator" or cond.get("op") not in ("<", "!=", "<="):
        return None
    v = strip(kids(cond)[0])
    if vid_of(v) is None:
        return None
    vid = vid_of(v)
    incs = [n for n in walk(loop) if (n["k"] == "UnaryOperator" and n.get("op") == "++" and vid_of(kids(n)[0]) == vid) or
            (n["k"] == "CompoundAssignOperator" and n.get("op") == "+=" and vid_of(kids(n)[0]) == vid and cv(kids(n)[1]) == 1)]
    writes = [n for n in walk(body) if n["k"] == "BinaryOperator" and n.get("op") == "=" and vid_of(kids(n)[0]) == vid]
    nested = False
    if len(incs) == 1:
        for a in f.ancestors(incs[0]):
            if a["i"] == loop["i"]:
                break
            if a["k"] in ("IfStmt", "SwitchStmt", "ForStmt", "WhileStmt", "DoStmt", "CXXForRangeStmt", "ConditionalOperator"):
                nested = True
    return dict(var=vid, name=v.get("name"), dir="up", bound=kids(cond)[1], start=start_of(vid), rel=cond["op"],
                stepped=len(incs) == 1 and not writes and not nested)
