"""Abstract domains used by the rules.

IntervalSet  finite unions of integer intervals (exact for comparison-only
             predicates over one integer, C10).
Interval     classical intervals with +-inf (C14, C11, C16).
LinSys       conjunctions of linear inequalities over the rationals with
             Fourier-Motzkin entailment (C17, C12).
"""
from fractions import Fraction

INF = float("inf")


class IntervalSet:
    """Finite union of closed integer intervals; bounds may be -INF/INF."""

    def __init__(self, ivs=()):
        self.ivs = self._norm(ivs)

    @staticmethod
    def _norm(ivs):
        ivs = sorted((lo, hi) for lo, hi in ivs if lo <= hi)
        out = []
        for lo, hi in ivs:
            if out and lo <= out[-1][1] + 1:
                out[-1] = (out[-1][0], max(out[-1][1], hi))
            else:
                out.append((lo, hi))
        return tuple(out)

    @classmethod
    def all(cls):
        return cls([(-INF, INF)])

    @classmethod
    def empty(cls):
        return cls([])

    @classmethod
    def cmp(cls, op, c):
        """{x | x op c}"""
        if op == "<": return cls([(-INF, c - 1)])
        if op == "<=": return cls([(-INF, c)])
        if op == ">": return cls([(c + 1, INF)])
        if op == ">=": return cls([(c, INF)])
        if op == "==": return cls([(c, c)])
        if op == "!=": return cls([(-INF, c - 1), (c + 1, INF)])
        raise ValueError(op)

    def __or__(self, o):
        return IntervalSet(self.ivs + o.ivs)

    def __invert__(self):
        out = []
        cur = -INF
        for lo, hi in self.ivs:
            if lo > cur:
                out.append((cur, lo - 1))
            cur = hi + 1
            if hi == INF:
                cur = None
                break
        if cur is not None:
            out.append((cur, INF))
        return IntervalSet(out)

    def __and__(self, o):
        out = []
        for a, b in self.ivs:
            for c, d in o.ivs:
                lo, hi = max(a, c), min(b, d)
                if lo <= hi:
                    out.append((lo, hi))
        return IntervalSet(out)

    def __eq__(self, o):
        return self.ivs == o.ivs

    def __hash__(self):
        return hash(self.ivs)

    def __sub__(self, o):
        return self & ~o

    def is_empty(self):
        return not self.ivs

    def __repr__(self):
        if not self.ivs:
            return "{}"
        def b(x):
            return "-inf" if x == -INF else "+inf" if x == INF else str(int(x))
        return " u ".join("[%s,%s]" % (b(l), b(h)) if l != h else "{%s}" % b(l)
                          for l, h in self.ivs)


FLIP = {"<": ">", "<=": ">=", ">": "<", ">=": "<=", "==": "==", "!=": "!="}
NEG = {"<": ">=", "<=": ">", ">": "<=", ">=": "<", "==": "!=", "!=": "=="}
