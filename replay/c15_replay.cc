// Replay of the C15 findings against the real SignalHandler, using the guarded
// hook points (build src/solver.cc with -DAMPL_MP_VERIF).  Triage only.
#include "mp/solver.h"
#include "mp/solver-app-base.h"
#include <csignal>
#include <cstdio>
#include <cstring>
#include <string>

static std::string fire_at;
static int fired = 0;
extern "C" void mp_verif_sigpoint(const char *name) {
  if (fire_at == name && !fired) { fired = 1; std::raise(SIGINT); }
}
struct TestSolver : mp::Solver {
  TestSolver() : mp::Solver("testsolver", "", 0, 0) {}
  int DoSolve(mp::Problem &, mp::SolutionHandler &) { return 0; }
};
static void *seen_data = (void*)-1; static int calls = 0;
static bool cb(void *d) { seen_data = d; ++calls; return true; }
static int token = 42;

int main() {
  int bad = 0;
  {  // (1) signal between signal() installation and stop_ = 0 in the ctor
    TestSolver s; fire_at = "ctor.after_signal"; fired = 0;
    mp::internal::SignalHandler sh(s);
    bool observed = sh.Stop();
    std::printf("ctor window: signal delivered=%d, Stop() afterwards=%d %s\n", fired, observed,
                observed ? "" : "<-- interrupt LOST");
    if (fired && !observed) ++bad;
  }
  {  // (2) signal between the two stores of SetHandler
    TestSolver s; fire_at = ""; fired = 0;
    mp::internal::SignalHandler sh(s);
    fire_at = "sethandler.after_store1"; calls = 0; seen_data = (void*)-1;
    sh.SetHandler(cb, &token);
    std::printf("SetHandler window: callback calls=%d with data=%p (registered %p) %s\n", calls,
                seen_data, (void*)&token,
                (calls && seen_data != &token) ? "<-- callback paired with OTHER data" : "");
    if (calls && seen_data != &token) ++bad;
    sh.SetHandler(0, 0);
  }
  std::printf("%d defects reproduced\n", bad);
  return bad ? 1 : 0;
}
