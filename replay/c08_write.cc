// Replay of C08.G1 (writer half): a MIQP whose Hessian has a duplicate diagonal entry.
//   x0 continuous, Hessian entries (0,0) twice;  x1 integer in [-3,20], Hessian entry (1,1);  x2 continuous, linear.
// The header's num_nl_vars_in_objs must be 2 (x0, x1); the pre-fix writer counts Hessian nonzeros (3).
// usage: c08_write <stub> ; prints the permutation and the header counts.
#include "mp/nl-solver.h"
#include "mp/nl-utils.h"
#include <cstdio>
#include <vector>
#include <cmath>
int main(int argc, char** argv) {
  std::vector<double> lb{0, -3, 0}, ub{10, 20, 10};
  std::vector<int> ty{0, 1, 0};
  const char* names[] = {"x0", "x1", "x2"};
  std::vector<size_t> qs{0, 2, 3};
  std::vector<int> qi{0, 0, 1};
  std::vector<double> qv{1, 1, 4};
  std::vector<double> c{0, 1, 1};
  std::vector<size_t> as{0};
  std::vector<int> ai{0, 1, 2};
  std::vector<double> av{1, 1, 1};
  std::vector<double> rlb{1}, rub{20};
  mp::NLModel m("c08");
  m.SetCols({3, lb.data(), ub.data(), ty.data()});
  m.SetColNames(names);
  m.SetRows(1, rlb.data(), rub.data(), {1, NLW2_MatrixFormatRowwise, 3, as.data(), ai.data(), av.data()});
  m.SetLinearObjective(NLW2_ObjSenseMinimize, 0.0, c.data());
  m.SetHessian(NLW2_HessianFormatSquare, {3, NLW2_MatrixFormatIrrelevant, 3, qs.data(), qi.data(), qv.data()});
  auto opts = NLW2_MakeNLOptionsBasic_C_Default();
  opts.n_text_mode_ = 1;
  mp::NLUtils ut;
  mp::NLModel::PreprocessData pd;
  auto err = m.WriteNL(argc > 1 ? argv[1] : "/tmp/c08r/m", opts, ut, pd);
  std::printf("WriteNL: '%s'\nvperm:", err.c_str());
  for (int v : pd.vperm_) std::printf(" %d", v);
  std::printf("\n");
  return 0;
}
