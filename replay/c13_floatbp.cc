// Replay of C13.T1: BasicPLApproximator::InitNonPeriodic collects the breakpoints in a std::set<float>;
// the domain ends lbx/ubx go through float, so the approximation does not start/end at the reported domain
// and two ends that round to the same float leave a single breakpoint (the sub-interval lookup then throws).
#include "mp/flat/redef/MIP/core/lin_approx_core.h"
#include <cstdio>
#include <cmath>
#include <exception>
static int run(double lb, double ub) {
  mp::LogConstraint con{ {0} };
  mp::PLApproxParams prm;
  prm.grDom = {lb, ub, -1e100, 1e100};
  prm.ubErr = 1e-2;
  try {
    mp::PLApproximate(con, prm);
  } catch (const std::exception& e) {
    std::printf("log on [%.10g, %.10g]: exception '%s'\n", lb, ub, e.what());
    return 1;
  }
  const auto& x = prm.plPoints.x_;
  std::printf("log on [%.10g, %.10g]: reported domain [%.10g, %.10g], %zu points, first %.10g last %.10g\n",
              lb, ub, prm.grDomOut.lbx, prm.grDomOut.ubx, x.size(), x.front(), x.back());
  return (x.front() != prm.grDomOut.lbx || x.back() != prm.grDomOut.ubx) ? 1 : 0;
}
int main() {
  int bad = 0;
  bad += run(2.0, 64.0);                       // floats: fine
  bad += run(123456789.0, 123457000.0);        // ends are not floats: the PL starts at 123456792
  bad += run(1000000.01, 1000000.02);          // both ends round to one float
  std::printf(bad ? "PL does not cover the reported domain in %d case(s)\n" : "all covered\n", bad);
  return bad != 0;
}
