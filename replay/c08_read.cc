// Replay of C08.G1 (reader half): reads <stub>.nl with mp's NL reader and prints the type of each variable
// position; with the permutation printed by c08_write the caller's x1 (integer) must be integer.
#include "mp/nl-reader.h"
#include "mp/problem.h"
#include <cstdio>
int main(int argc, char** argv) {
  mp::Problem p;
  try {
    mp::ReadNLFile(argv[1], p);
  } catch (const std::exception& e) {
    std::printf("read error: %s\n", e.what());
    return 2;
  }
  for (int i = 0; i < p.num_vars(); ++i)
    std::printf("pos %d: %s [%g,%g]\n", i, p.var(i).type() == mp::var::INTEGER ? "INTEGER" : "continuous",
                p.var(i).lb(), p.var(i).ub());
  return 0;
}
