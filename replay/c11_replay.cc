// Replay of the C11 findings against the real option parser (build with ASan).  Triage only.
#include "mp/solver.h"
#include <climits>
#include <cstdio>
#include <cstring>
#include <string>
struct TestSolver : mp::Solver {
  std::string str_; int int_ = 0;
  std::string GetStr(const mp::SolverOption &) const { return str_; }
  void SetStr(const mp::SolverOption &, fmt::StringRef v) { str_ = v.to_string(); }
  int GetInt(const mp::SolverOption &) const { return int_; }
  void SetInt(const mp::SolverOption &, int v) { int_ = v; }
  TestSolver() : mp::Solver("testsolver", "", 0, 0) {
    AddStrOption("stropt", "", &TestSolver::GetStr, &TestSolver::SetStr);
    AddIntOption("intopt", "", &TestSolver::GetInt, &TestSolver::SetInt);
  }
  int DoSolve(mp::Problem &, mp::SolutionHandler &) { return 0; }
  using mp::Solver::ParseOptionString;
};
int main(int argc, char **argv) {
  TestSolver s;
  int bad = 0;
  try { s.ParseOptionString("intopt=3000000000", mp::BasicSolver::NO_OPTION_ECHO); }
  catch (const mp::OptionError &e) { std::printf("intopt=3000000000 rejected: %s\n", e.what()); s.int_ = -1; }
  if (s.int_ != -1) std::printf("intopt=3000000000 -> %d %s\n", s.int_, s.int_ == 3000000000LL ? "" : "<-- different number, no error");
  if (s.int_ != -1 && s.int_ != 3000000000LL) ++bad;
  if (argc > 1) {   // the out-of-bounds read: run under ASan
    const char *txt = "stropt=\"abc";            // unterminated quote
    size_t n = std::strlen(txt) + 1;
    char *heap = new char[n];
    std::memcpy(heap, txt, n);
    std::printf("parsing unterminated quote from an exact-size heap buffer...\n");
    s.ParseOptionString(heap, mp::BasicSolver::NO_OPTION_ECHO);
    std::printf("stropt -> '%s'\n", s.str_.c_str());
    delete[] heap;
  }
  std::printf("%d defects reproduced (plus ASan report if any)\n", bad);
  return bad ? 1 : 0;
}
