// Replay of C05 (writer half): writes a solution with mp::WriteSolFile.
// usage: c05_write <file.sol> <num_options>  (0: no AMPL options, 3: options {0,1,0}, 5: vbtol form {0,3,0} -> 5 entries)
#include "mp/sol.h"
#include "mp/suffix.h"
#include <cstdlib>
#include <vector>
struct Sol {
  std::vector<long> opts;
  std::vector<double> x{1.5, -2.25, 3.0}, y{0.125, 7.0};
  int status() const { return 0; }
  const char* message() const { return "solved: optimal\n\nsecond paragraph"; }
  int num_options() const { return (int)opts.size(); }
  long option(int i) const { return opts[i]; }
  int num_values() const { return (int)x.size(); }
  double value(int i) const { return x[i]; }
  int num_dual_values() const { return (int)y.size(); }
  double dual_value(int i) const { return y[i]; }
  int objno() const { return 1; }
  int num_vars() const { return 3; }
  int num_algebraic_cons() const { return 2; }
  const mp::SuffixSet* suffixes(mp::suf::Kind) const { return nullptr; }
};
int main(int argc, char** argv) {
  Sol s;
  int n = std::atoi(argv[2]);
  if (n == 3) s.opts = {0, 1, 0};
  if (n == 5) s.opts = {0, 3, 0, 0, 0};
  mp::WriteSolFile(argv[1], s);
  return 0;
}
