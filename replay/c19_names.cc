// Replay of C19.S1: NameProvider::name() looks at the byte before the end of the line to strip a '\r',
// also when the line is empty; for the first line of the file that byte is before the mapped buffer.
// usage: c19_names <file.col>   (first line empty)
#include "mp/problem.h"
#include "mp/nl-reader.h"
#include <cstdio>
int main(int, char** argv) {
  mp::NameProvider np("_svar", "_sdvar");
  np.ReadNames(argv[1], 2);
  std::printf("read %zu names\n", np.number_read());
  for (std::size_t i = 0; i < np.number_read(); ++i) {
    auto n = np.name(i);
    std::printf("name %zu: [%.*s]\n", i, (int)n.size(), n.data());
  }
  return 0;
}
