// Replay of C10.R1 findings against the real StdBackend predicates
// (triage program, not part of any check).
#include "visitorbackend.h"
#include <cstdio>
struct B : mp::VisitorBackend {
  using mp::VisitorBackend::SetStatus;
  using mp::VisitorBackend::IsProblemSolvedOrFeasible;
  using mp::VisitorBackend::IsProblemInfeasible;
};
int main() {
  B b;
  int bad = 0;
  for (int code : {0, 99, 300, 349, 350, 400, 449, 450, 299, 200}) {
    b.SetStatus({code, ""});
    std::printf("code %d: SolvedOrFeasible=%d Infeasible=%d\n", code,
                (int)b.IsProblemSolvedOrFeasible(), (int)b.IsProblemInfeasible());
  }
  b.SetStatus({400, ""}); if (!b.IsProblemSolvedOrFeasible()) ++bad;
  b.SetStatus({300, ""}); if (!b.IsProblemSolvedOrFeasible()) ++bad;
  b.SetStatus({299, ""}); if (!b.IsProblemInfeasible()) ++bad;
  std::printf("%d defects reproduced\n", bad);
  return bad ? 1 : 0;
}
