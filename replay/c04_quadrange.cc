// Replay of C04 (range -> equality + slack link for QUADRATIC range constraints).
// A driver that does not accept quadratic range constraints (gurobi, cplex, copt, cbc ...; here the mock
// visitor driver with acc:quadrange=0) converts  lb <= q(x) <= ub  into  q(x) + s = ub  and links the items
// with RangeCon2Slack.  RangeConstraintConverter instantiates the link with the LINEAR range type for both
// bodies, so presolving a start solution looks the source constraint up among the linear ranges.
// This program is the visitor driver whose MIP start presolves the solution the way the real drivers do.
// usage: c04_quadrange <model.nl> -AMPL acc:quadrange=0
#include "visitorbackend.h"
#include "mp/backend-app.h"
#include <cstdio>
namespace {
struct StartBackend : mp::VisitorBackend {
  // the mock driver declares no warm start feature; real drivers reach this through AddPrimalDualStart / AddMIPStart
  void InputStartValues() override { Start(InitialValues()); }
  void Start(mp::ArrayRef<double> x0) {
    auto mv = GetValuePresolver().PresolveSolution({ x0 });
    auto x = mv.GetVarValues()();
    std::printf("presolved start (%d values):", (int)x.size());
    for (auto v : x) std::printf(" %g", v);
    std::printf("\n");
  }
};
}
int main(int, char** argv) {
  return mp::RunBackendApp(argv, []() { return std::unique_ptr<mp::BasicBackend>(new StartBackend); });
}
