// Replay of the C14.R1 findings against the real SOL reader (build with ASan+UBSan).
#include "mp/sol-reader2.h"
#include "mp/sol-reader2.hpp"
#include "mp/nl-utils.h"
#include <cstdio>
#include <string>
struct H : mp::SOLHandler {
  mp::NLHeader Header() const { mp::NLHeader h; h.num_vars = 1; h.num_algebraic_cons = 1; return h; }
};
static int run(const char *title, const std::string &suffix_line) {
  const char *fn = "/tmp/c14_replay.sol";
  FILE *f = std::fopen(fn, "w");
  std::fprintf(f, "solver message\n\n1.0\n2.0\nobjno 0 0\n%s\nx\n0 1\n", suffix_line.c_str());
  std::fclose(f);
  H h; mp::NLUtils u;
  mp::SOLReader2<H> rd(h, u);
  std::printf("%s ... ", title); std::fflush(stdout);
  auto rc = rd.ReadSOLFile(fn);
  std::printf("result code %d (%s)\n", (int)rc, rd.ErrorMessage(rc).c_str());
  std::remove(fn);
  return 0;
}
int main(int argc, char **argv) {
  int which = argc > 1 ? argv[1][0] - '0' : 0;
  if (which == 0) run("well-formed suffix", "suffix 0 1 2 0 0");
  if (which == 1) run("namelen 100000 (index into buf[512])", "suffix 0 1 100000 0 0");
  if (which == 2) run("12-digit field (Lget overflow)", "suffix 0 1 999999999999 0 0");
  if (which == 3) run("namelen 2^30 (scratch size overflow)", "suffix 0 1 1073741824 0 0");
  return 0;
}
