// Replay of C08.N1: NLModel::ComputeObjValue dereferences the linear coefficient vector although
// SetLinearObjective documents it as optional (nullptr) and the NL writer accepts nullptr.
#include "mp/nl-solver.h"
#include <cstdio>
#include <vector>
int main() {
  std::vector<double> lb{0, 0}, ub{10, 10};
  std::vector<size_t> qs{0, 1};
  std::vector<int> qi{0, 1};
  std::vector<double> qv{2, 2};
  mp::NLModel m("c08n");
  m.SetCols({2, lb.data(), ub.data(), nullptr});
  m.SetLinearObjective(NLW2_ObjSenseMinimize, 1.0);          // no linear part
  m.SetHessian(NLW2_HessianFormatSquare, {2, NLW2_MatrixFormatIrrelevant, 2, qs.data(), qi.data(), qv.data()});
  double x[] = {1, 2};
  std::printf("obj = %g (expected 1 + 0.5*(2*1 + 2*4) = 6)\n", m.ComputeObjValue(x));
  return 0;
}
