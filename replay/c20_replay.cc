// Replay of C20.F1/F2: MiniJSONWriter does not escape strings; an SOS range with an
// infinite bound is printed as "inf".  The output line is checked by a JSON parser.
#include "mp/util-json-write.hpp"
#include "mp/format.h"
#include <cmath>
#include <cstdio>
#include <string>
int main() {
  fmt::MemoryWriter w;
  {
    mp::MiniJSONWriter<fmt::MemoryWriter> jw(w);
    jw["name"] = "x['a\"b\\c']";
    jw["printed"] = std::string("line1\nline2");
    jw["sum_of_vars_range"] << -(double)INFINITY << (double)INFINITY;
  }
  std::printf("%s\n", w.c_str());
  return 0;
}
