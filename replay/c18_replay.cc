// Replay of C18 findings against the real mp::Equal / std::hash<mp::Expr>.  Triage only.
#include "mp/expr.h"
#include "mp/problem.h"
#include <cmath>
#include <cstdio>
using namespace mp;
int main() {
  ExprFactory f;
  int bad = 0;
  NumericExpr nan = f.MakeNumericConstant(std::nan(""));
  bool refl = Equal(nan, nan);
  std::printf("Equal(NaN-const, same) = %d %s\n", refl, refl ? "" : "<-- not reflexive");
  if (!refl) ++bad;
  // PLTerm with a NaN slope
  {
    auto b = f.BeginPLTerm(1);
    b.AddSlope(std::nan("")); b.AddBreakpoint(0); b.AddSlope(1);
    NumericExpr pl = f.EndPLTerm(b, f.MakeVariable(0));
    bool r = Equal(pl, pl);
    std::printf("Equal(PLTerm with NaN slope, same) = %d %s\n", r, r ? "" : "<-- not reflexive");
    if (!r) ++bad;
  }
  auto probe = [&](const char *what, Expr e) {
    try { bool r = Equal(e, e); std::printf("Equal(%s, same) = %d\n", what, r); }
    catch (const std::exception &ex) { std::printf("Equal(%s, same) throws: %s <-- not total\n", what, ex.what()); ++bad; }
#ifdef MP_USE_HASH
    try { std::size_t h = std::hash<Expr>()(e); (void)h; std::printf("hash(%s) ok\n", what); }
    catch (const std::exception &ex) { std::printf("hash(%s) throws: %s <-- not total\n", what, ex.what()); ++bad; }
#endif
  };
  {
    auto b = f.BeginPairwise(expr::NOT_ALLDIFF, 2);
    b.AddArg(f.MakeVariable(0)); b.AddArg(f.MakeVariable(1));
    probe("!alldiff", f.EndPairwise(b));
  }
  {
    auto b = f.BeginSymbolicNumberOf(2, f.MakeStringLiteral("a"));
    b.AddArg(f.MakeVariable(1));
    probe("symbolic numberof", f.EndSymbolicNumberOf(b));
  }
  probe("symbolic if", f.MakeSymbolicIf(f.MakeLogicalConstant(true), f.MakeStringLiteral("a"), f.MakeVariable(0)));
  probe("string literal", f.MakeStringLiteral("abc"));
  std::printf("%d defects reproduced\n", bad);
  return bad ? 1 : 0;
}
