// Replay of C09.P4: mp::WriteSolFile onto a device without space (/dev/full).
// The write fails (ENOSPC at flush/close); a caller must learn about it, otherwise the driver
// exits 0 leaving a truncated/empty .sol.   usage: c09_devfull [n_values]
#include "mp/sol.h"
#include "mp/suffix.h"
#include <cstdio>
#include <cstdlib>
#include <vector>
#include <exception>
struct Sol {
  std::vector<double> x;
  int status() const { return 0; }
  const char* message() const { return "optimal"; }
  int num_options() const { return 3; }
  long option(int i) const { static long o[] = {0, 1, 0}; return o[i]; }
  int num_values() const { return (int)x.size(); }
  double value(int i) const { return x[i]; }
  int num_dual_values() const { return 0; }
  double dual_value(int) const { return 0; }
  int objno() const { return 1; }
  int num_vars() const { return (int)x.size(); }
  int num_algebraic_cons() const { return 0; }
  const mp::SuffixSet* suffixes(mp::suf::Kind) const { return nullptr; }
};
int main(int argc, char** argv) {
  Sol s;
  s.x.assign(argc > 1 ? std::atoi(argv[1]) : 10, 1.25);
  try {
    mp::WriteSolFile("/dev/full", s);
  } catch (const std::exception& e) {
    std::printf("error reported to the caller: %s\n", e.what());
    return 0;
  }
  std::printf("WriteSolFile returned normally although nothing could be written\n");
  return 1;
}
