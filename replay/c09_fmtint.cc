// Replay of C09.P2 (overload trap): `throw Error("function {} is not defined", func_index)` selects
// Error(CStringRef msg, int exit_code): the index becomes the exit code (0 -> solve result 0, "solved")
// and the message keeps its placeholder.  Reached by an NL file that calls an undeclared function.
#include "mp/nl-reader.h"
#include "mp/problem.h"
#include <cstdio>
#include <string>
int main() {
  // one variable, one objective calling function 0 which is never declared (no F segment)
  std::string nl =
    "g3 0 1 0\n 1 0 1 0 0\n 0 1\n 0 0\n 0 1 0\n 0 0 0 1\n 0 0 0 0 0\n 0 1\n 0 0\n 0 0 0 0 0\n"
    "O0 0\nf0 1\nv0\nb\n3\n";
  // declare one function slot in the header: " 0 1 0 1" -> funcs=1
  nl.replace(nl.find(" 0 0 0 1\n"), 9, " 0 1 0 1\n");
  mp::Problem p;
  try {
    mp::ReadNLString(nl, p, "(input)");
    std::printf("read ok?!\n");
    return 2;
  } catch (const mp::Error& e) {
    int sr = e.exit_code() >= 0 ? e.exit_code() : 500;
    std::printf("what(): %s\nexit_code %d -> solve result %d\n", e.what(), e.exit_code(), sr);
    return (sr >= 500 && sr <= 999) ? 0 : 1;
  }
}
