// Replay of C09.P2: the solve-result code BackendApp::Run hands to ReportError for the exception classes
// the converter can raise.  Run() passes er.exit_code() when it is >= 0, else sol::FAILURE (500).
#include "mp/error.h"
#include "mp/common.h"
#include <cstdio>
using namespace mp;
static int code_for(const mp::Error& er) { return er.exit_code() >= 0 ? er.exit_code() : mp::sol::FAILURE; }
int main() {
  int bad = 0;
  try { MP_UNSUPPORTED("atan2"); } catch (const mp::Error& e) {
    std::printf("MP_UNSUPPORTED        -> exit_code %d, solve_result %d  (%s)\n", e.exit_code(), code_for(e), e.what());
    bad += !(code_for(e) >= 500 && code_for(e) <= 999); }
  try { throw mp::Error("bad value {} for {}", 1, "x"); } catch (const mp::Error& e) {
    std::printf("Error(fmt, args...)   -> exit_code %d, solve_result %d\n", e.exit_code(), code_for(e));
    bad += !(code_for(e) >= 500 && code_for(e) <= 999); }
  try { MP_RAISE("plain"); } catch (const mp::Error& e) {
    std::printf("MP_RAISE              -> exit_code %d, solve_result %d\n", e.exit_code(), code_for(e));
    bad += !(code_for(e) >= 500 && code_for(e) <= 999); }
  try { MP_INFEAS("x"); } catch (const mp::Error& e) {
    std::printf("MP_INFEAS             -> exit_code %d, solve_result %d\n", e.exit_code(), code_for(e));
    bad += !(code_for(e) >= 200 && code_for(e) <= 299); }
  std::printf(bad ? "%d raise form(s) end in a solve_result outside the failure/infeasible classes\n" : "all classes ok\n", bad);
  return bad != 0;
}
