// Replay of C02.W2: unbounded recursion of the expression reader on deeply nested input.
#include "mp/nl-reader.h"
#include <cstdio>
#include <cstdlib>
#include <string>
struct H : mp::NullNLHandler<int> {};
int main(int argc, char **argv) {
  long depth = argc > 1 ? std::atol(argv[1]) : 1000000;
  std::string nl =
    "g3 1 1 0\n 1 1 0 0 0\n 1 0\n 0 0\n 1 0 0\n 0 0 0 1\n 0 0 0 0 0\n 0 0\n 0 0\n 0 0 0 0 0\nC0\n";
  for (long i = 0; i < depth; ++i) nl += "o16\n";      // nested unary minus
  nl += "n1\n";
  H h;
  try { mp::ReadNLString(nl, h, "(input)"); std::printf("read ok at depth %ld\n", depth); }
  catch (const std::exception &e) { std::printf("exception: %s\n", e.what()); }
  return 0;
}
