// Replay of C05 (reader half): reads <file.sol> with nl-writer2's SOLReader2 for a 3-variable, 2-constraint problem.
#include "mp/sol-reader2.h"
#include "mp/sol-reader2.hpp"
#include "mp/sol-handler.h"
#include "mp/nl-utils.h"
#include <cstdio>
struct H : mp::SOLHandler {
  mp::NLHeader Header() const { mp::NLHeader h; h.num_vars = 3; h.num_algebraic_cons = 2; h.num_objs = 1; return h; }
  void OnSolveMessage(const char* s, int) { std::printf("message: [%s]\n", s); }
  int OnAMPLOptions(const AMPLOptions& ao) { std::printf("options:"); for (auto o : ao.options_) std::printf(" %ld", o);
    std::printf(" vbtol=%d %g\n", (int)ao.has_vbtol_, ao.vbtol_); return 0; }
  template <class R> void OnDualSolution(R& rd) { std::printf("duals:"); while (rd.Size()) std::printf(" %.17g", rd.ReadNext()); std::printf("\n"); }
  template <class R> void OnPrimalSolution(R& rd) { std::printf("primals:"); while (rd.Size()) std::printf(" %.17g", rd.ReadNext()); std::printf("\n"); }
  void OnObjno(int n) { std::printf("objno %d\n", n); }
  void OnSolveCode(int c) { std::printf("solve code %d\n", c); }
};
int main(int, char** argv) {
  H h; mp::NLUtils ut;
  auto st = mp::ReadSOLFile(argv[1], h, ut);
  std::printf("status %d '%s'\n", (int)st.first, st.second.c_str());
  return st.first != 0;
}
