// Replay of C03.W1: ampl_vbtol is written to the NL header with "%.g" (one
// significant digit) and read back as a different number.  Triage only.
#include "mp/nl-writer2.h"
#include "mp/nl-writer2.hpp"
#include "mp/nl-reader.h"
#include <cstdio>
struct Feeder : mp::NLFeeder<Feeder, void*> {
  mp::NLHeader Header() {
    mp::NLHeader h;
    h.num_vars = 1; h.num_algebraic_cons = 0; h.num_objs = 0;
    h.num_ampl_options = 3;
    h.ampl_options[0] = 1; h.ampl_options[1] = 3; h.ampl_options[2] = 0;
    h.ampl_vbtol = 1.5e-7;
    return h;
  }
};
struct H : mp::NullNLHandler<int> {
  double vbtol = -1;
  void OnHeader(const mp::NLHeader &h) { vbtol = h.ampl_vbtol; }
};
int main() {
  Feeder f; mp::NLUtils u;
  auto r = mp::WriteNLFile("/tmp/c03_replay", f, u);
  std::printf("write result %d\n", (int)r.first);
  H h;
  try { mp::ReadNLFile("/tmp/c03_replay.nl", h); } catch (const std::exception &e) { std::printf("reader: %s\n", e.what()); }
  std::printf("vbtol written 1.5e-07, read back %.17g %s\n", h.vbtol, h.vbtol == 1.5e-7 ? "" : "<-- differs");
  std::remove("/tmp/c03_replay.nl");
  return h.vbtol == 1.5e-7 ? 0 : 1;
}
