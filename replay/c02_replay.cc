// Replay of the C02.U1 finding: out-of-range double in the header's option list is
// converted to long (undefined behaviour).  Build with -fsanitize=float-cast-overflow.
#include "mp/nl-reader.h"
#include <cstdio>
struct H : mp::NullNLHandler<int> {};
int main() {
  // header of a tiny model; option values "1e300"
  const char *nl =
    "g3 1e300 1 0\n 1 0 0 0 0\n 0 0\n 0 0\n 0 0 0\n 0 0 0 1\n 0 0 0 0 0\n 0 0\n 0 0\n 0 0 0 0 0\nb\n3\n";
  H h;
  try { mp::ReadNLString(nl, h, "(input)"); std::printf("read ok\n"); }
  catch (const std::exception &e) { std::printf("exception: %s\n", e.what()); }
  return 0;
}
